// Command addski adds, once, extra certificates to harness/testdata/keys.json: for keys T1 and T2 two
// DIFFERENT certificates over the SAME key pair, both valid 2020-2040 and both carrying a
// SubjectKeyIdentifier extension (what openssl-made IdP certificates look like; renewed certificate on an
// unchanged key). Existing entries are left untouched.
package main

import (
	"crypto"
	"crypto/rand"
	"crypto/sha1"
	"crypto/x509"
	"crypto/x509/pkix"
	"encoding/json"
	"math/big"
	"os"
	"time"
)

type keyFile struct {
	Kind  string            `json:"kind"`
	PKCS8 []byte            `json:"pkcs8"`
	Certs map[string][]byte `json:"certs"`
}

func main() {
	const path = "harness/testdata/keys.json"
	b, err := os.ReadFile(path)
	if err != nil {
		panic(err)
	}
	var all map[string]keyFile
	if err := json.Unmarshal(b, &all); err != nil {
		panic(err)
	}
	serial := int64(5000)
	for _, name := range []string{"T1", "T2"} {
		kf := all[name]
		priv, err := x509.ParsePKCS8PrivateKey(kf.PKCS8)
		if err != nil {
			panic(err)
		}
		pub := priv.(crypto.Signer).Public()
		spki, _ := x509.MarshalPKIXPublicKey(pub)
		ski := sha1.Sum(spki)
		for _, w := range []string{"wide-ski", "wide-ski2"} {
			if _, ok := kf.Certs[w]; ok {
				continue
			}
			serial++
			tmpl := &x509.Certificate{
				SerialNumber: big.NewInt(serial), Subject: pkix.Name{CommonName: "verif-" + name + "-" + w},
				NotBefore: time.Date(2020, 1, 1, 0, 0, 0, 0, time.UTC), NotAfter: time.Date(2040, 1, 1, 0, 0, 0, 0, time.UTC),
				KeyUsage: x509.KeyUsageDigitalSignature, BasicConstraintsValid: true, SubjectKeyId: ski[:],
			}
			der, err := x509.CreateCertificate(rand.Reader, tmpl, tmpl, pub, priv)
			if err != nil {
				panic(err)
			}
			kf.Certs[w] = der
		}
		all[name] = kf
	}
	out, _ := json.MarshalIndent(all, "", " ")
	if err := os.WriteFile(path, out, 0o644); err != nil {
		panic(err)
	}
}
