// Command addlong adds, once, long-lived certificates to harness/testdata/keys.json: "long" (1960-01-01 .. 2260-01-01,
// three centuries: longer than a time.Duration can express, yet inside the range of int64 Unix nanoseconds the
// harness clock uses) for T1, E1 and E2, and "longer" (1950 .. 2261-12-31) for T1, so that an IdP certificate exists
// that is valid on both sides of the "long" window. Existing entries are left untouched.
package main

import (
	"crypto"
	"crypto/rand"
	"crypto/x509"
	"crypto/x509/pkix"
	"encoding/json"
	"math/big"
	"os"
	"time"
)

type keyFile struct {
	Kind  string            `json:"kind"`
	PKCS8 []byte            `json:"pkcs8"`
	Certs map[string][]byte `json:"certs"`
}

func main() {
	const path = "harness/testdata/keys.json"
	b, err := os.ReadFile(path)
	if err != nil {
		panic(err)
	}
	var all map[string]keyFile
	if err := json.Unmarshal(b, &all); err != nil {
		panic(err)
	}
	serial := int64(15000)
	add := func(name, w string, nb, na time.Time) {
		kf := all[name]
		if _, ok := kf.Certs[w]; ok {
			return
		}
		priv, err := x509.ParsePKCS8PrivateKey(kf.PKCS8)
		if err != nil {
			panic(err)
		}
		pub := priv.(crypto.Signer).Public()
		serial++
		tmpl := &x509.Certificate{
			SerialNumber: big.NewInt(serial), Subject: pkix.Name{CommonName: "verif-" + name + "-" + w},
			NotBefore: nb, NotAfter: na,
			KeyUsage: x509.KeyUsageDigitalSignature | x509.KeyUsageKeyEncipherment, BasicConstraintsValid: true,
		}
		der, err := x509.CreateCertificate(rand.Reader, tmpl, tmpl, pub, priv)
		if err != nil {
			panic(err)
		}
		kf.Certs[w] = der
		all[name] = kf
	}
	for _, n := range []string{"T1", "E1", "E2"} {
		add(n, "long", time.Date(1960, 1, 1, 0, 0, 0, 0, time.UTC), time.Date(2260, 1, 1, 0, 0, 0, 0, time.UTC))
	}
	add("T1", "longer", time.Date(1950, 1, 1, 0, 0, 0, 0, time.UTC), time.Date(2261, 12, 31, 0, 0, 0, 0, time.UTC))
	out, _ := json.MarshalIndent(all, "", " ")
	if err := os.WriteFile(path, out, 0o644); err != nil {
		panic(err)
	}
}
