// Command addku adds, once, extra certificates to harness/testdata/keys.json: for the IdP-side keys T1, T2, U1 and U2
// a certificate "wide-enc" (valid 2020-2040) whose keyUsage extension lacks digitalSignature (keyEncipherment |
// dataEncipherment only) — the shape of an IdP ENCRYPTION certificate that deployments load into the trust store
// next to the signing one. The library's contract is about certificate identity and validity, not key usage.
// Existing entries are left untouched.
package main

import (
	"crypto"
	"crypto/rand"
	"crypto/x509"
	"crypto/x509/pkix"
	"encoding/json"
	"math/big"
	"os"
	"time"
)

type keyFile struct {
	Kind  string            `json:"kind"`
	PKCS8 []byte            `json:"pkcs8"`
	Certs map[string][]byte `json:"certs"`
}

func main() {
	const path = "harness/testdata/keys.json"
	b, err := os.ReadFile(path)
	if err != nil {
		panic(err)
	}
	var all map[string]keyFile
	if err := json.Unmarshal(b, &all); err != nil {
		panic(err)
	}
	serial := int64(12000)
	for _, name := range []string{"T1", "T2", "U1", "U2"} {
		kf := all[name]
		if _, ok := kf.Certs["wide-enc"]; ok {
			continue
		}
		priv, err := x509.ParsePKCS8PrivateKey(kf.PKCS8)
		if err != nil {
			panic(err)
		}
		pub := priv.(crypto.Signer).Public()
		serial++
		tmpl := &x509.Certificate{
			SerialNumber: big.NewInt(serial), Subject: pkix.Name{CommonName: "verif-" + name + "-wide-enc"},
			NotBefore: time.Date(2020, 1, 1, 0, 0, 0, 0, time.UTC), NotAfter: time.Date(2040, 1, 1, 0, 0, 0, 0, time.UTC),
			KeyUsage: x509.KeyUsageKeyEncipherment | x509.KeyUsageDataEncipherment, BasicConstraintsValid: true,
		}
		der, err := x509.CreateCertificate(rand.Reader, tmpl, tmpl, pub, priv)
		if err != nil {
			panic(err)
		}
		kf.Certs["wide-enc"] = der
		all[name] = kf
	}
	out, _ := json.MarshalIndent(all, "", " ")
	if err := os.WriteFile(path, out, 0o644); err != nil {
		panic(err)
	}
}
