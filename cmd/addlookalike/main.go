// Command addlookalike adds, once, certificates over the ATTACKER key A to harness/testdata/keys.json that copy the
// public identity fields of trusted certificates: "like-T1ski" / "like-T2ski" (same subject and the same
// SubjectKeyIdentifier as T1 / T2 "wide-ski"), "like-T1" (same subject and serial number as T1 "wide"). All of these
// fields are freely choosable by whoever makes a certificate; only the certificate itself (and its key) identifies a
// trusted signer. Existing entries are left untouched.
package main

import (
	"crypto"
	"crypto/rand"
	"crypto/x509"
	"encoding/json"
	"os"
)

type keyFile struct {
	Kind  string            `json:"kind"`
	PKCS8 []byte            `json:"pkcs8"`
	Certs map[string][]byte `json:"certs"`
}

func main() {
	const path = "harness/testdata/keys.json"
	b, err := os.ReadFile(path)
	if err != nil {
		panic(err)
	}
	var all map[string]keyFile
	if err := json.Unmarshal(b, &all); err != nil {
		panic(err)
	}
	a := all["A"]
	priv, err := x509.ParsePKCS8PrivateKey(a.PKCS8)
	if err != nil {
		panic(err)
	}
	pub := priv.(crypto.Signer).Public()
	for name, src := range map[string][2]string{"like-T1ski": {"T1", "wide-ski"}, "like-T2ski": {"T2", "wide-ski"}, "like-T1": {"T1", "wide"}} {
		if _, ok := a.Certs[name]; ok {
			continue
		}
		orig, err := x509.ParseCertificate(all[src[0]].Certs[src[1]])
		if err != nil {
			panic(err)
		}
		tmpl := &x509.Certificate{
			SerialNumber: orig.SerialNumber, Subject: orig.Subject, NotBefore: orig.NotBefore, NotAfter: orig.NotAfter,
			KeyUsage: orig.KeyUsage, BasicConstraintsValid: true, SubjectKeyId: orig.SubjectKeyId,
		}
		der, err := x509.CreateCertificate(rand.Reader, tmpl, tmpl, pub, priv)
		if err != nil {
			panic(err)
		}
		a.Certs[name] = der
	}
	all["A"] = a
	out, _ := json.MarshalIndent(all, "", " ")
	if err := os.WriteFile(path, out, 0o644); err != nil {
		panic(err)
	}
}
