// Command verifrun is the driver behind every quick_cmd / thorough_cmd in
// MANIFEST.json: it rebuilds the property test binary from /repo's current
// working tree, runs the replay tier, the enumerated grids and the rapid
// property in several shard processes (plus native fuzzing in the thorough
// tier), aggregates the per-process statistics into evidence/<ID>.json and maps
// the outcome to the exit codes 0 (held), 1 (violation), 2 (inconclusive).
package main

import (
	"bytes"
	"encoding/json"
	"fmt"
	"os"
	"os/exec"
	"path/filepath"
	"regexp"
	"sort"
	"strconv"
	"strings"
	"sync"
	"time"
)

type tierCfg struct {
	Checks  int       `json:"checks"`  // rapid cases per shard process
	Shards  int       `json:"shards"`  // number of processes
	Timeout int       `json:"timeout"` // seconds per process
	Fuzz    []fuzzCfg `json:"fuzz,omitempty"`
}

type fuzzCfg struct {
	Target  string `json:"target"`
	Seconds int    `json:"seconds"`
}

type checkCfg struct {
	ID          string   `json:"id"`
	Race        bool     `json:"race,omitempty"`
	Rule        string   `json:"rule"`
	Assumptions []string `json:"assumptions"`
	Quick       tierCfg  `json:"quick"`
	Thorough    tierCfg  `json:"thorough"`
}

type shardStats struct {
	Property    string            `json:"property"`
	Shard       int               `json:"shard"`
	Evaluations int               `json:"evaluations"`
	NonTrivial  int               `json:"nontrivial"`
	Hashes      []string          `json:"hashes"`
	Classes     map[string]int    `json:"classes"`
	Excluded    map[string]int    `json:"excluded"`
	KnownHits   map[string]int    `json:"known_hits"`
	Samples     []json.RawMessage `json:"samples"`
	Violations  []struct {
		Sig    string `json:"sig"`
		Detail string `json:"detail"`
		Replay string `json:"replay"`
	} `json:"violations"`
}

type finding struct {
	Property  string `json:"property"`
	Status    string `json:"status"`
	Signature string `json:"signature"`
	What      string `json:"what"`
	Commit    string `json:"commit,omitempty"`
}

var verifDir = "/verif"

func fatal2(format string, args ...interface{}) {
	fmt.Fprintf(os.Stderr, "verifrun: "+format+"\n", args...)
	os.Exit(2)
}

func goEnv(repo string) []string {
	env := os.Environ()
	env = append(env, "GOFLAGS=-mod=mod", "GOPROXY=off", "GOSUMDB=off", "GOTOOLCHAIN=local", "GONOSUMDB=*", "GONOSUMCHECK=1")
	return env
}

func main() {
	if d := os.Getenv("VERIF_DIR"); d != "" {
		verifDir = d
	}
	if len(os.Args) < 3 {
		fatal2("usage: verifrun <ID> <quick|thorough> | verifrun replay <ID> <file>")
	}
	if os.Args[1] == "replay" {
		if len(os.Args) < 4 {
			fatal2("usage: verifrun replay <ID> <file>")
		}
		os.Exit(replay(os.Args[2], os.Args[3]))
	}
	id, tier := os.Args[1], os.Args[2]
	if t := os.Getenv("VERIF_TIER"); t == "quick" || t == "thorough" {
		tier = t
	}
	seed := int64(1)
	if s := os.Getenv("VERIF_SEED"); s != "" {
		n, err := strconv.ParseInt(s, 10, 64)
		if err != nil {
			fatal2("bad VERIF_SEED %q", s)
		}
		seed = n
	}
	cfg := loadCfg(id)
	tc := cfg.Quick
	if tier == "thorough" {
		tc = cfg.Thorough
	}
	if v := os.Getenv("VERIF_CHECKS"); v != "" { // development override
		tc.Checks, _ = strconv.Atoi(v)
	}
	start := time.Now()
	// VERIF_RUNTAG isolates a run (work dir, binary, replays, evidence) so that several trees can be
	// checked side by side (sensitivity runs against scratch copies); the registered commands never set it.
	tag := os.Getenv("VERIF_RUNTAG")
	work := filepath.Join(verifDir, ".work", id)
	replays := filepath.Join(verifDir, "replays")
	evidencePath := filepath.Join(verifDir, "evidence", id+".json")
	binTag := id
	if tag != "" {
		work = filepath.Join(verifDir, ".work", id+"."+tag)
		replays = filepath.Join(work, "replays")
		evidencePath = filepath.Join(work, "evidence.json")
		binTag = id + "." + tag
	}
	os.RemoveAll(work)
	os.MkdirAll(filepath.Join(work, "stats"), 0o755)
	os.RemoveAll(filepath.Join(replays, id))
	os.RemoveAll(filepath.Join(verifDir, "props", "testdata", "rapid"))

	bin := build(binTag, cfg.Race)

	type procResult struct {
		shard   int
		err     error
		out     []byte
		timeout bool
	}
	results := make([]procResult, tc.Shards)
	var wg sync.WaitGroup
	for sh := 0; sh < tc.Shards; sh++ {
		wg.Add(1)
		go func(sh int) {
			defer wg.Done()
			run := "^Test" + id + "(_P[A-Za-z0-9]*)?$"
			if sh == 0 {
				run = "^Test" + id + "(_|$)"
			}
			rseed := uint64(seed)*1000003 + uint64(sh) + 1
			args := []string{"-test.run", run, "-test.timeout", fmt.Sprintf("%ds", tc.Timeout+60),
				"-rapid.checks", strconv.Itoa(tc.Checks), "-rapid.seed", strconv.FormatUint(rseed, 10),
				"-rapid.shrinktime", "20s", "-rapid.nofailfile"}
			cmd := exec.Command(bin, args...)
			cmd.Dir = filepath.Join(verifDir, "props")
			cmd.Env = append(os.Environ(), "VERIF_SHARD="+strconv.Itoa(sh), "VERIF_TIER="+tier, "VERIF_WORK="+work,
				"VERIF_DIR="+verifDir, "VERIF_REPLAYS="+replays, "VERIF_SEED="+strconv.FormatInt(seed, 10), "GOMEMLIMIT=6GiB")
			var buf bytes.Buffer
			cmd.Stdout, cmd.Stderr = &buf, &buf
			done := make(chan error, 1)
			if err := cmd.Start(); err != nil {
				results[sh] = procResult{shard: sh, err: err}
				return
			}
			go func() { done <- cmd.Wait() }()
			select {
			case err := <-done:
				results[sh] = procResult{shard: sh, err: err, out: buf.Bytes()}
			case <-time.After(time.Duration(tc.Timeout) * time.Second):
				cmd.Process.Kill()
				<-done
				results[sh] = procResult{shard: sh, err: fmt.Errorf("timeout"), out: buf.Bytes(), timeout: true}
			}
		}(sh)
	}
	wg.Wait()

	// native fuzzing (thorough only), one target at a time, all cores
	type fuzzViolation struct{ target, path string }
	var fuzzV []fuzzViolation
	fuzzExecs := map[string]int64{}
	inconclusive := []string{}
	for _, fz := range tc.Fuzz {
		fdir := filepath.Join(verifDir, "props", "testdata", "fuzz", fz.Target)
		before := listDir(fdir)
		cmd := exec.Command(bin, "-test.run", "^$", "-test.fuzz", "^"+fz.Target+"$", "-test.fuzztime", fmt.Sprintf("%ds", fz.Seconds),
			"-test.fuzzminimizetime", "200x", "-test.fuzzcachedir", filepath.Join(verifDir, ".cache", "fuzz"), "-test.timeout", fmt.Sprintf("%ds", fz.Seconds+300))
		cmd.Dir = filepath.Join(verifDir, "props")
		cmd.Env = append(os.Environ(), "VERIF_SHARD=99", "VERIF_TIER="+tier, "VERIF_WORK="+work, "VERIF_DIR="+verifDir, "VERIF_FUZZING=1")
		out, err := cmd.CombinedOutput()
		os.WriteFile(filepath.Join(work, "fuzz."+fz.Target+".log"), out, 0o644)
		if m := regexp.MustCompile(`execs: (\d+)`).FindAllSubmatch(out, -1); len(m) > 0 {
			n, _ := strconv.ParseInt(string(m[len(m)-1][1]), 10, 64)
			fuzzExecs[fz.Target] = n
		}
		after := listDir(fdir)
		newFiles := diff(after, before)
		if err != nil {
			if len(newFiles) > 0 {
				for _, f := range newFiles {
					fuzzV = append(fuzzV, fuzzViolation{fz.Target, filepath.Join(fdir, f)})
				}
			} else {
				inconclusive = append(inconclusive, fmt.Sprintf("fuzz %s failed without a crasher: %v", fz.Target, err))
			}
		}
	}

	// aggregate
	agg := shardStats{Classes: map[string]int{}, Excluded: map[string]int{}, KnownHits: map[string]int{}}
	hashes := map[string]struct{}{}
	files, _ := filepath.Glob(filepath.Join(work, "stats", id+".*.json"))
	sort.Strings(files)
	type viol struct{ sig, detail, replay string }
	var viols []viol
	for _, f := range files {
		b, err := os.ReadFile(f)
		if err != nil {
			continue
		}
		var s shardStats
		if json.Unmarshal(b, &s) != nil {
			continue
		}
		agg.Evaluations += s.Evaluations
		agg.NonTrivial += s.NonTrivial
		for _, h := range s.Hashes {
			hashes[h] = struct{}{}
		}
		for k, v := range s.Classes {
			agg.Classes[k] += v
		}
		for k, v := range s.Excluded {
			agg.Excluded[k] += v
		}
		for k, v := range s.KnownHits {
			agg.KnownHits[k] += v
		}
		for _, smp := range s.Samples {
			if len(agg.Samples) < 8 {
				agg.Samples = append(agg.Samples, smp)
			}
		}
		for _, v := range s.Violations {
			viols = append(viols, viol{v.Sig, v.Detail, v.Replay})
		}
	}
	for _, r := range results {
		if r.err == nil {
			continue
		}
		os.WriteFile(filepath.Join(work, fmt.Sprintf("shard.%d.log", r.shard)), r.out, 0o644)
		if bytes.Contains(r.out, []byte("WARNING: DATA RACE")) {
			logp := filepath.Join(work, fmt.Sprintf("shard.%d.log", r.shard))
			viols = append(viols, viol{"data-race/" + raceSite(r.out), "the race detector reported a data race while the property ran (full report in the replay file)", logp})
			continue
		}
		if r.timeout {
			// the shard was killed before it wrote its statistics; violations it had already recorded (with a
			// replay file each) are in its journal and stand on their own
			journaled := 0
			if jb, err := os.ReadFile(filepath.Join(work, fmt.Sprintf("violations.%d.jsonl", r.shard))); err == nil {
				for _, line := range bytes.Split(jb, []byte("\n")) {
					var jv struct {
						Sig    string `json:"sig"`
						Detail string `json:"detail"`
						Replay string `json:"replay"`
					}
					if len(line) > 0 && json.Unmarshal(line, &jv) == nil && jv.Sig != "" && jv.Replay != "" {
						viols = append(viols, viol{jv.Sig, jv.Detail, jv.Replay})
						journaled++
					}
				}
			}
			if journaled == 0 {
				inconclusive = append(inconclusive, fmt.Sprintf("shard %d timed out after %ds", r.shard, tc.Timeout))
			}
			continue
		}
		// a failing process must be explained by a recorded violation; otherwise
		// look for a fatal error attributable to the code under test
		explained := false
		for _, v := range viols {
			if v.replay != "" {
				explained = true
			}
		}
		if explained {
			continue
		}
		if crumb := readCrumb(work, r.shard); crumb != "" && bytes.Contains(r.out, []byte("fatal error:")) {
			viols = append(viols, viol{"fatal/" + firstLineWith(r.out, "fatal error:"), string(tail(r.out, 1500)), crumb})
			continue
		}
		inconclusive = append(inconclusive, fmt.Sprintf("shard %d failed without a recorded violation: %v (log: %s)", r.shard, r.err, filepath.Join(work, fmt.Sprintf("shard.%d.log", r.shard))))
	}
	for _, fv := range fuzzV {
		viols = append(viols, viol{"fuzz/" + fv.target, "native fuzz crasher", fv.path})
	}
	for t, n := range fuzzExecs {
		agg.Classes["fuzz-execs:"+t] = int(n)
		agg.Evaluations += int(n)
	}

	wall := time.Since(start).Seconds()
	cov := map[string]interface{}{
		"evaluations":              agg.Evaluations,
		"distinct_nontrivial":      len(hashes),
		"nontrivial_total":         agg.NonTrivial,
		"rule":                     cfg.Rule,
		"samples":                  agg.Samples,
		"classes":                  agg.Classes,
		"excluded_by_construction": agg.Excluded,
		"known_finding_hits":       agg.KnownHits,
		"shards":                   tc.Shards,
		"rapid_checks_per_shard":   tc.Checks,
	}
	if len(agg.Samples) == 0 {
		cov["samples"] = []interface{}{}
	}
	ev := map[string]interface{}{
		"property_id": id, "tier": tier, "seed": seed, "level": "exploration",
		"coverage": cov, "assumptions": cfg.Assumptions, "wall_s": wall, "violations": len(viols),
	}
	if len(inconclusive) > 0 {
		ev["inconclusive"] = inconclusive
	}
	os.MkdirAll(filepath.Dir(evidencePath), 0o755)
	b, _ := json.MarshalIndent(ev, "", " ")
	if err := os.WriteFile(evidencePath, b, 0o644); err != nil {
		fatal2("write evidence: %v", err)
	}

	for _, f := range loadFindings() {
		if f.Property == id && f.Status == "known" {
			fmt.Printf("KNOWN-FINDING: property=%s %s [%s] (hits this run: %d)\n", id, oneLine(f.What), f.Signature, agg.KnownHits[f.Signature])
		}
	}
	fmt.Printf("verifrun: %s %s seed=%d evaluations=%d distinct_nontrivial=%d wall=%.1fs\n", id, tier, seed, agg.Evaluations, len(hashes), wall)
	if len(viols) > 0 {
		seen := map[string]bool{}
		for _, v := range viols {
			if seen[v.sig] {
				continue
			}
			seen[v.sig] = true
			fmt.Printf("VIOLATION property=%s replay=%s\n  signature: %s\n  %s\n", id, v.replay, v.sig, indent(v.detail))
		}
		os.Exit(1)
	}
	if len(inconclusive) > 0 {
		for _, s := range inconclusive {
			fmt.Println("INCONCLUSIVE:", s)
		}
		os.Exit(2)
	}
	if agg.Evaluations == 0 {
		fmt.Println("INCONCLUSIVE: no case was evaluated")
		os.Exit(2)
	}
}

// raceSite names the first library frame of a race report.
func raceSite(out []byte) string {
	for _, l := range strings.Split(string(out), "\n") {
		l = strings.TrimSpace(l)
		if strings.HasPrefix(l, "github.com/russellhaering/gosaml2") {
			if i := strings.LastIndex(l, "("); i > 0 {
				l = l[:i]
			}
			return strings.TrimPrefix(l, "github.com/russellhaering/gosaml2")
		}
	}
	return "unknown"
}

func oneLine(s string) string {
	s = strings.ReplaceAll(s, "\n", " ")
	if len(s) > 400 {
		s = s[:400] + "..."
	}
	return s
}

func indent(s string) string {
	if len(s) > 1500 {
		s = s[:1500] + "..."
	}
	return strings.ReplaceAll(s, "\n", "\n  ")
}

func tail(b []byte, n int) []byte {
	if len(b) > n {
		return b[len(b)-n:]
	}
	return b
}

func firstLineWith(b []byte, needle string) string {
	for _, l := range strings.Split(string(b), "\n") {
		if strings.Contains(l, needle) {
			return strings.TrimSpace(l)
		}
	}
	return needle
}

func readCrumb(work string, shard int) string {
	p := filepath.Join(work, fmt.Sprintf("crumb.%d.json", shard))
	if _, err := os.Stat(p); err == nil {
		return p
	}
	return ""
}

func listDir(d string) []string {
	es, _ := os.ReadDir(d)
	var out []string
	for _, e := range es {
		out = append(out, e.Name())
	}
	return out
}

func diff(a, b []string) []string {
	m := map[string]bool{}
	for _, x := range b {
		m[x] = true
	}
	var out []string
	for _, x := range a {
		if !m[x] {
			out = append(out, x)
		}
	}
	return out
}

func loadCfg(id string) checkCfg {
	b, err := os.ReadFile(filepath.Join(verifDir, "checks.json"))
	if err != nil {
		fatal2("checks.json: %v", err)
	}
	var all struct {
		Checks []checkCfg `json:"checks"`
	}
	if err := json.Unmarshal(b, &all); err != nil {
		fatal2("checks.json: %v", err)
	}
	for _, c := range all.Checks {
		if c.ID == id {
			return c
		}
	}
	fatal2("no check %q in checks.json", id)
	return checkCfg{}
}

func loadFindings() []finding {
	b, err := os.ReadFile(filepath.Join(verifDir, "known_findings.json"))
	if err != nil {
		return nil
	}
	var f struct {
		Findings []finding `json:"findings"`
	}
	json.Unmarshal(b, &f)
	return f.Findings
}

// build compiles the props test binary against the current /repo tree (or
// VERIF_REPO via a temporary modfile). A build failure is inconclusive (2).
func build(id string, race bool) string {
	binDir := filepath.Join(verifDir, ".bin")
	os.MkdirAll(binDir, 0o755)
	bin := filepath.Join(binDir, "props."+id+".test")
	args := []string{"test", "-c", "-tags", "verif", "-o", bin}
	if race {
		args = append(args, "-race")
	}
	if repo := os.Getenv("VERIF_REPO"); repo != "" && repo != "/repo" {
		mod, err := os.ReadFile(filepath.Join(verifDir, "go.mod"))
		if err != nil {
			fatal2("go.mod: %v", err)
		}
		mod = bytes.ReplaceAll(mod, []byte("=> /repo"), []byte("=> "+repo))
		mf := filepath.Join(binDir, "go."+id+".mod")
		os.WriteFile(mf, mod, 0o644)
		sum, _ := os.ReadFile(filepath.Join(verifDir, "go.sum"))
		os.WriteFile(filepath.Join(binDir, "go."+id+".sum"), sum, 0o644)
		args = append(args, "-modfile", mf)
	}
	args = append(args, "./props")
	cmd := exec.Command("go", args...)
	cmd.Dir = verifDir
	cmd.Env = goEnv("")
	out, err := cmd.CombinedOutput()
	if err != nil {
		fmt.Fprintf(os.Stderr, "%s\n", out)
		fatal2("build of the property tests against the repository failed: %v", err)
	}
	return bin
}

// replay runs one saved case through the plain regression path.
func replay(id, file string) int {
	cfg := loadCfg(id)
	bin := build(id, cfg.Race)
	abs, _ := filepath.Abs(file)
	work := filepath.Join(verifDir, ".work", id+".replay")
	os.RemoveAll(work)
	os.MkdirAll(work, 0o755)
	cmd := exec.Command(bin, "-test.run", "^Test"+id+"_Replay", "-test.v")
	cmd.Dir = filepath.Join(verifDir, "props")
	cmd.Env = append(os.Environ(), "VERIF_REPLAY="+abs, "VERIF_WORK="+work, "VERIF_DIR="+verifDir)
	out, err := cmd.CombinedOutput()
	os.Stdout.Write(out)
	if err != nil {
		if bytes.Contains(out, []byte("VIOLATION-CANDIDATE")) {
			fmt.Printf("VIOLATION property=%s replay=%s\n", id, abs)
			return 1
		}
		return 2
	}
	return 0
}
