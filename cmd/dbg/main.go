// Command dbg decodes the "encoded" field of a replay file and shows how far a plain parse gets.
package main

import (
	"bytes"
	"encoding/base64"
	"encoding/json"
	"fmt"
	"os"

	"github.com/beevik/etree"
	rtvalidator "github.com/mattermost/xml-roundtrip-validator"
)

func main() {
	b, _ := os.ReadFile(os.Args[1])
	var w struct {
		Case map[string]interface{} `json:"case"`
	}
	json.Unmarshal(b, &w)
	field := "encoded"
	if len(os.Args) > 2 {
		field = os.Args[2]
	}
	enc, _ := w.Case[field].(string)
	raw, err := base64.StdEncoding.DecodeString(enc)
	fmt.Println("b64 err:", err, "len", len(raw))
	doc := etree.NewDocument()
	fmt.Println("etree err:", doc.ReadFromBytes(raw))
	fmt.Println("rt err:", rtvalidator.Validate(bytes.NewReader(raw)))
	if len(os.Args) > 3 {
		os.Stdout.Write(raw)
	}
}
