// Command addws adds, once, extra certificates to harness/testdata/keys.json: for the SP keys S1, S2, E1 and E2
// certificates (valid 2020-2040) whose DER encoding ENDS in a chosen byte — a line feed ("wide-nl"), a space
// ("wide-sp") or a NUL ("wide-nul"). About 1 certificate in 40 ends in an ASCII white-space byte; code that
// trims, splits or C-string-handles certificate bytes damages exactly those. Found by stepping the serial
// number. Existing entries are left untouched.
package main

import (
	"crypto"
	"crypto/rand"
	"crypto/x509"
	"crypto/x509/pkix"
	"encoding/json"
	"math/big"
	"os"
	"time"
)

type keyFile struct {
	Kind  string            `json:"kind"`
	PKCS8 []byte            `json:"pkcs8"`
	Certs map[string][]byte `json:"certs"`
}

func main() {
	const path = "harness/testdata/keys.json"
	b, err := os.ReadFile(path)
	if err != nil {
		panic(err)
	}
	var all map[string]keyFile
	if err := json.Unmarshal(b, &all); err != nil {
		panic(err)
	}
	serial := int64(9000)
	for _, name := range []string{"S1", "S2", "E1", "E2"} {
		kf := all[name]
		priv, err := x509.ParsePKCS8PrivateKey(kf.PKCS8)
		if err != nil {
			panic(err)
		}
		pub := priv.(crypto.Signer).Public()
		for w, last := range map[string]byte{"wide-nl": '\n', "wide-sp": ' ', "wide-nul": 0} {
			if _, ok := kf.Certs[w]; ok {
				continue
			}
			for {
				serial++
				tmpl := &x509.Certificate{
					SerialNumber: big.NewInt(serial), Subject: pkix.Name{CommonName: "verif-" + name + "-" + w},
					NotBefore: time.Date(2020, 1, 1, 0, 0, 0, 0, time.UTC), NotAfter: time.Date(2040, 1, 1, 0, 0, 0, 0, time.UTC),
					KeyUsage: x509.KeyUsageDigitalSignature | x509.KeyUsageKeyEncipherment, BasicConstraintsValid: true,
				}
				der, err := x509.CreateCertificate(rand.Reader, tmpl, tmpl, pub, priv)
				if err != nil {
					panic(err)
				}
				if der[len(der)-1] == last {
					kf.Certs[w] = der
					break
				}
			}
		}
		all[name] = kf
	}
	out, _ := json.MarshalIndent(all, "", " ")
	if err := os.WriteFile(path, out, 0o644); err != nil {
		panic(err)
	}
}
