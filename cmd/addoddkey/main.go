// Command addoddkey adds, once, RSA key pairs of unusual size to harness/testdata/keys.json: "E3" with a 2047-bit
// modulus and "E4" with a 2044-bit one (bit length not a multiple of 8: the modulus needs 256 bytes, of which the
// first is not "full"), each with a "wide" certificate (2020-2040). Existing entries are left untouched.
package main

import (
	"crypto/rand"
	"crypto/rsa"
	"crypto/x509"
	"crypto/x509/pkix"
	"encoding/json"
	"math/big"
	"os"
	"time"
)

type keyFile struct {
	Kind  string            `json:"kind"`
	PKCS8 []byte            `json:"pkcs8"`
	Certs map[string][]byte `json:"certs"`
}

func main() {
	const path = "harness/testdata/keys.json"
	b, err := os.ReadFile(path)
	if err != nil {
		panic(err)
	}
	var all map[string]keyFile
	if err := json.Unmarshal(b, &all); err != nil {
		panic(err)
	}
	for i, spec := range []struct {
		name string
		bits int
	}{{"E3", 2047}, {"E4", 2044}} {
		if _, ok := all[spec.name]; ok {
			continue
		}
		k, err := rsa.GenerateKey(rand.Reader, spec.bits)
		if err != nil {
			panic(err)
		}
		if k.N.BitLen() != spec.bits {
			panic("unexpected modulus size")
		}
		p8, _ := x509.MarshalPKCS8PrivateKey(k)
		tmpl := &x509.Certificate{
			SerialNumber: big.NewInt(int64(17000 + i)), Subject: pkix.Name{CommonName: "verif-" + spec.name + "-wide"},
			NotBefore: time.Date(2020, 1, 1, 0, 0, 0, 0, time.UTC), NotAfter: time.Date(2040, 1, 1, 0, 0, 0, 0, time.UTC),
			KeyUsage: x509.KeyUsageDigitalSignature | x509.KeyUsageKeyEncipherment, BasicConstraintsValid: true,
		}
		der, err := x509.CreateCertificate(rand.Reader, tmpl, tmpl, &k.PublicKey, k)
		if err != nil {
			panic(err)
		}
		all[spec.name] = keyFile{Kind: "rsa", PKCS8: p8, Certs: map[string][]byte{"wide": der}}
	}
	out, _ := json.MarshalIndent(all, "", " ")
	if err := os.WriteFile(path, out, 0o644); err != nil {
		panic(err)
	}
}
