// Command genkeys generates the fixed key material of the harness once.
// Its output (harness/testdata/keys.json) is committed; checks never run it.
package main

import (
	"crypto/ecdsa"
	"crypto/elliptic"
	"crypto/rand"
	"crypto/rsa"
	"crypto/x509"
	"crypto/x509/pkix"
	"encoding/json"
	"math/big"
	"os"
	"time"
)

type keyFile struct {
	Kind  string            `json:"kind"` // rsa | ecdsa
	PKCS8 []byte            `json:"pkcs8"`
	Certs map[string][]byte `json:"certs"` // window name -> DER
}

func main() {
	windows := map[string][2]time.Time{
		"wide":   {time.Date(2020, 1, 1, 0, 0, 0, 0, time.UTC), time.Date(2040, 1, 1, 0, 0, 0, 0, time.UTC)},
		"past":   {time.Date(2000, 1, 1, 0, 0, 0, 0, time.UTC), time.Date(2001, 1, 1, 0, 0, 0, 0, time.UTC)},
		"future": {time.Date(2050, 1, 1, 0, 0, 0, 0, time.UTC), time.Date(2051, 1, 1, 0, 0, 0, 0, time.UTC)},
		"narrow": {time.Date(2030, 3, 1, 0, 0, 0, 0, time.UTC), time.Date(2030, 3, 2, 0, 0, 0, 0, time.UTC)},
	}
	names := map[string]string{
		"T1": "rsa", "T2": "rsa", "T3": "ecdsa", "A": "rsa", "A2": "ecdsa",
		"E1": "rsa", "E2": "rsa", "S1": "rsa", "S2": "rsa", "S3": "ecdsa", "U1": "rsa", "U2": "rsa",
	}
	out := map[string]keyFile{}
	serial := int64(1000)
	for name, kind := range names {
		var priv interface{}
		var pub interface{}
		if kind == "rsa" {
			k, err := rsa.GenerateKey(rand.Reader, 2048)
			if err != nil {
				panic(err)
			}
			priv, pub = k, &k.PublicKey
		} else {
			k, err := ecdsa.GenerateKey(elliptic.P256(), rand.Reader)
			if err != nil {
				panic(err)
			}
			priv, pub = k, &k.PublicKey
		}
		der, err := x509.MarshalPKCS8PrivateKey(priv)
		if err != nil {
			panic(err)
		}
		kf := keyFile{Kind: kind, PKCS8: der, Certs: map[string][]byte{}}
		for w, nbna := range windows {
			serial++
			tmpl := &x509.Certificate{
				SerialNumber:          big.NewInt(serial),
				Subject:               pkix.Name{CommonName: "verif-" + name + "-" + w},
				NotBefore:             nbna[0],
				NotAfter:              nbna[1],
				KeyUsage:              x509.KeyUsageDigitalSignature | x509.KeyUsageKeyEncipherment,
				BasicConstraintsValid: true,
			}
			c, err := x509.CreateCertificate(rand.Reader, tmpl, tmpl, pub, priv)
			if err != nil {
				panic(err)
			}
			kf.Certs[w] = c
		}
		out[name] = kf
	}
	b, _ := json.MarshalIndent(out, "", " ")
	if err := os.WriteFile("harness/testdata/keys.json", b, 0o644); err != nil {
		panic(err)
	}
}
