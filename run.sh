#!/bin/sh
# Entry point used by MANIFEST.json: ./run.sh <ID> <quick|thorough>  |  ./run.sh replay <ID> <file>
cd "$(dirname "$0")" || exit 2
export GOFLAGS=-mod=mod GOPROXY=off GOSUMDB=off GOTOOLCHAIN=local
# everything (work dir, binaries, evidence, replays, regressions) is relative to the directory this script lives in
export VERIF_DIR="${VERIF_DIR:-$(pwd)}"
mkdir -p .bin
if [ ! -x .bin/verifrun ] || [ cmd/verifrun/main.go -nt .bin/verifrun ]; then
  go build -o .bin/verifrun ./cmd/verifrun || exit 2
fi
exec .bin/verifrun "$@"
