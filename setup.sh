#!/bin/sh
# Offline build of the framework from files on disk only.
cd "$(dirname "$0")" || exit 1
export GOFLAGS=-mod=mod GOPROXY=off GOSUMDB=off GOTOOLCHAIN=local
mkdir -p .bin
go build -o .bin/verifrun ./cmd/verifrun || exit 1
go vet ./harness ./props ./cmd/... >/dev/null 2>&1
go test -c -tags verif -o .bin/props.setup.test ./props || exit 1
rm -f .bin/props.setup.test
echo setup ok
