package props

import (
	"bytes"
	"compress/gzip"
	"compress/zlib"
	"encoding/base64"
	"fmt"
	"io"
	"math"
	"reflect"
	"runtime"
	"strings"
	"testing"

	saml2 "github.com/russellhaering/gosaml2"
	"github.com/russellhaering/gosaml2/types"
	"pgregory.net/rapid"

	h "verif/harness"
)

// C12 — decompression is bounded by the configured limit and otherwise transparent.

const defaultLimit = 5 * 1024 * 1024

type C12Case struct {
	Limit    int64  `json:"limit"`   // MaximumDecompressedBodySize (0 = unset)
	Size     int64  `json:"size"`    // inflated size of the payload
	Payload  string `json:"payload"` // "valid-padded" | "run" | "encrypted-bomb"
	Kind     string `json:"kind"`    // response | LogoutRequest | LogoutResponse
	Level    int    `json:"level"`
	Relation string `json:"relation"` // L-1, L, L+1, 2L, 64L, 1000L, bomb
	// Envelope: the DEFLATE stream travels inside a zlib (RFC 1950) or gzip (RFC 1952) envelope — what PHP's
	// gzcompress / a careless toolkit sends. The library promises raw DEFLATE only, so nothing is expected of such a
	// message within the limit; beyond the limit it is refused within the memory bound like any other.
	Envelope string `json:"envelope,omitempty"`
}

func effLimit(l int64) int64 {
	if l == 0 {
		return defaultLimit
	}
	return l
}

var c12Base = map[string][]byte{}

func c12BaseXML(kind string) []byte {
	if b, ok := c12Base[kind]; ok {
		return b
	}
	sp := h.BaseSP()
	var xml []byte
	if kind == "response" || kind == "response-asrt" {
		// "response-asrt": the Response itself is unsigned, its assertion carries the signature (the library takes
		// another path through the decoder for such messages)
		g := gridGenuine(sp, 1, map[string]string{"response": "response", "response-asrt": "assertions"}[kind])
		x, _, _, err := g.Render()
		if err != nil {
			panic(err)
		}
		xml = x
	} else {
		li := &h.LogoutIssue{Model: h.PlainLogout(sp, kind), NS: h.NSStyle{P: "samlp", A: "saml"}, Sig: h.DefaultSign("T1")}
		x, _, err := li.Render()
		if err != nil {
			panic(err)
		}
		xml = x
	}
	c12Base[kind] = xml
	return xml
}

// padTo appends a trailing comment so that the document has exactly n bytes (n >= len+7).
func padTo(xml []byte, n int64) []byte {
	need := n - int64(len(xml)) - 7
	if need < 0 {
		return nil
	}
	out := make([]byte, 0, n)
	out = append(out, xml...)
	out = append(out, "<!--"...)
	out = append(out, bytes.Repeat([]byte{'p'}, int(need))...)
	out = append(out, "-->"...)
	return out
}

func (c *C12Case) payload() []byte {
	switch c.Payload {
	case "valid-padded":
		if p := padTo(c12BaseXML(c.Kind), c.Size); p != nil {
			return p
		}
	case "valid-utf8-padded":
		// a trailing comment of multi-byte characters (2, 3 and 4 bytes long in turn, so that characters straddle
		// every power-of-two offset somewhere): the inflated text is cut into buffers at byte offsets, not at characters
		base := c12BaseXML(c.Kind)
		if need := c.Size - int64(len(base)) - 7; need >= 0 {
			out := make([]byte, 0, c.Size)
			out = append(append(out, base...), "<!--"...)
			units := []string{"\u00e9", "\u20ac", "\U0001F600", "\u00df\u4e2d"}
			for i := 0; int64(len(out))+int64(len(units[i%4])) <= c.Size-3; i++ {
				out = append(out, units[i%4]...)
			}
			for int64(len(out)) < c.Size-3 {
				out = append(out, 'p')
			}
			return append(out, "-->"...)
		}
	case "valid-ws-padded":
		// trailing white space after the root: every prefix that contains the whole root is itself a
		// complete document, so a decoder that silently truncates at the limit would accept it
		base := c12BaseXML(c.Kind)
		if int64(len(base)) <= c.Size {
			return append(append([]byte{}, base...), bytes.Repeat([]byte{'\n'}, int(c.Size)-len(base))...)
		}
	case "valid-nul-padded", "valid-ff-padded", "valid-bom-padded":
		// trailing bytes that are NOT XML (NUL, 0xFF) or a byte-order mark after the root: the uncompressed
		// presentation is refused, so the compressed one must be as well — and the padding counts towards the
		// expansion like any other byte
		base := c12BaseXML(c.Kind)
		if int64(len(base)) <= c.Size {
			fill := map[string][]byte{"valid-nul-padded": {0}, "valid-ff-padded": {0xff}, "valid-bom-padded": {0xEF, 0xBB, 0xBF}}[c.Payload]
			out := append([]byte{}, base...)
			for int64(len(out)) < c.Size {
				out = append(out, fill...)
			}
			return out[:c.Size]
		}
	}
	return bytes.Repeat([]byte{'A'}, int(c.Size))
}

func genC12(t *rapid.T) C12Case {
	c := C12Case{Kind: rapid.SampledFrom([]string{"response", "response-asrt", "LogoutRequest", "LogoutResponse"}).Draw(t, "kind"), Level: rapid.IntRange(-2, 9).Draw(t, "level")}
	limits := []int64{0, 1, 64, 1024, 8 * 1024, 64 * 1024}
	if h.Thorough() {
		limits = append(limits, 1024*1024)
	}
	c.Limit = rapid.SampledFrom(limits).Draw(t, "limit")
	if c.Limit != 0 && rapid.IntRange(0, 3).Draw(t, "oddLimit") == 0 {
		c.Limit = rapid.Int64Range(5000, 40000).Draw(t, "limitFree")
	}
	huge := rapid.IntRange(0, 9).Draw(t, "hugeLimit") == 0
	if huge {
		// "no limit" spelled as a very large number: an ordinary message is within it
		c.Limit = rapid.SampledFrom([]int64{math.MaxInt64, math.MaxInt64 - 1, 1 << 62, 1 << 40}).Draw(t, "limitHuge")
	}
	L := effLimit(c.Limit)
	c.Relation = rapid.SampledFrom([]string{"L-1", "L", "L+1", "2L", "64L", "1000L", "bomb", "small"}).Draw(t, "relation")
	if huge {
		c.Relation = "small"
	}
	if L == defaultLimit && (c.Relation == "64L" || c.Relation == "1000L") {
		c.Relation = "bomb" // keep the quick tier cheap; bomb covers huge ratios
	}
	switch c.Relation {
	case "L-1":
		c.Size = L - 1
	case "L":
		c.Size = L
	case "L+1":
		c.Size = L + 1
	case "2L":
		c.Size = 2 * L
	case "64L":
		c.Size = 64 * L
	case "1000L":
		c.Size = 1000 * L
	case "bomb":
		c.Size = 32 << 20
		if h.Thorough() {
			c.Size = 256 << 20
		}
		if c.Size <= L {
			c.Size = 2 * L
		}
	case "small":
		c.Size = int64(len(c12BaseXML(c.Kind))) + rapid.Int64Range(7, 2000).Draw(t, "pad")
	}
	if c.Size < 0 {
		c.Size = 0
	}
	capSize := int64(64 << 20)
	if h.Thorough() {
		capSize = 512 << 20
	}
	if c.Size > capSize {
		c.Size = capSize
	}
	c.Payload = rapid.SampledFrom([]string{"valid-padded", "valid-padded", "valid-ws-padded", "run", "valid-nul-padded", "valid-ff-padded", "valid-bom-padded", "valid-utf8-padded", "valid-utf8-padded"}).Draw(t, "payload")
	if rapid.IntRange(0, 5).Draw(t, "envelope") == 0 {
		c.Envelope = rapid.SampledFrom([]string{"zlib", "gzip", "multi-2", "multi-3", "multi-many"}).Draw(t, "envelopeKind")
	}
	return c
}

type outcomeClass struct {
	Class string
	Data  interface{}
}

func classify(res interface{}, err error) outcomeClass {
	if err == nil {
		return outcomeClass{"accepted", res}
	}
	if v, ok := err.(saml2.ErrVerification); ok {
		err = v.Cause
	}
	switch e := err.(type) {
	case saml2.ErrMissingElement:
		return outcomeClass{"profile:" + e.Tag + "/" + e.Attribute, nil}
	case saml2.ErrInvalidValue:
		return outcomeClass{"profile:" + e.Key + "/" + e.Reason, nil}
	case saml2.ErrParsing:
		return outcomeClass{"profile:parse:" + e.Tag, nil}
	}
	st := rejectStage(err)
	if st == "signature" || st == "parent" || st == "decrypt" {
		return outcomeClass{st, nil}
	}
	return outcomeClass{"decoding", nil}
}

type entryFn struct {
	name    string
	limited bool // honours the SP limit (the unverified decoders always use the default)
	f       func(sp *saml2.SAMLServiceProvider, in string) (interface{}, error)
}

func stripResp(r *types.Response) interface{} {
	if r == nil {
		return nil
	}
	c := *r
	return c
}

var c12Entries = []entryFn{
	{"ValidateEncodedResponse", true, func(sp *saml2.SAMLServiceProvider, in string) (interface{}, error) {
		r, err := sp.ValidateEncodedResponse(in)
		return stripResp(r), err
	}},
	{"RetrieveAssertionInfo", true, func(sp *saml2.SAMLServiceProvider, in string) (interface{}, error) {
		r, err := sp.RetrieveAssertionInfo(in)
		if r == nil {
			return nil, err
		}
		return *r, err
	}},
	{"DecodeUnverifiedBaseResponse", false, func(sp *saml2.SAMLServiceProvider, in string) (interface{}, error) {
		r, err := saml2.DecodeUnverifiedBaseResponse(in)
		if r == nil {
			return nil, err
		}
		return *r, err
	}},
	{"DecodeUnverifiedLogoutResponse", false, func(sp *saml2.SAMLServiceProvider, in string) (interface{}, error) {
		r, err := saml2.DecodeUnverifiedLogoutResponse(in)
		if r == nil {
			return nil, err
		}
		return *r, err
	}},
	{"ValidateEncodedLogoutRequestPOST", true, func(sp *saml2.SAMLServiceProvider, in string) (interface{}, error) {
		r, err := sp.ValidateEncodedLogoutRequestPOST(in)
		if r == nil {
			return nil, err
		}
		return *r, err
	}},
	{"ValidateEncodedLogoutResponsePOST", true, func(sp *saml2.SAMLServiceProvider, in string) (interface{}, error) {
		r, err := sp.ValidateEncodedLogoutResponsePOST(in)
		if r == nil {
			return nil, err
		}
		return *r, err
	}},
}

func checkC12(c C12Case) h.Outcome {
	o := h.Outcome{NonTrivial: true}
	L := effLimit(c.Limit)
	o.Classes = []string{fmt.Sprintf("limit:%d", c.Limit), "rel:" + c.Relation, "payload:" + c.Payload, "kind:" + c.Kind, fmt.Sprintf("level:%d", c.Level)}
	raw := c.payload()
	comp := h.Deflate(raw, c.Level)
	firstStream := int64(0) // expansion of the first of several streams when that part is a complete document
	if strings.HasPrefix(c.Envelope, "multi-") {
		// several complete DEFLATE streams written back to back, each expanding to LESS than the limit, together to
		// more: the limit is about what the message expands to, however it is cut up
		k := map[string]int{"multi-2": 2, "multi-3": 3, "multi-many": 256}[c.Envelope]
		var buf bytes.Buffer
		for i := 0; i < k; i++ {
			lo, hi := len(raw)*i/k, len(raw)*(i+1)/k
			buf.Write(h.Deflate(raw[lo:hi], c.Level))
		}
		comp = buf.Bytes()
		o.Classes = append(o.Classes, "envelope:"+c.Envelope)
		if c.Payload != "valid-padded" && c.Payload != "valid-utf8-padded" && c.Payload != "run" {
			firstStream = int64(len(raw) / k) // with comment padding or a run the first part is never a document
		}
	} else if c.Envelope != "" {
		var buf bytes.Buffer
		var w io.WriteCloser
		lvl := c.Level
		if lvl < -1 {
			lvl = -1
		}
		if c.Envelope == "zlib" {
			w, _ = zlib.NewWriterLevel(&buf, lvl)
		} else {
			w, _ = gzip.NewWriterLevel(&buf, lvl)
		}
		w.Write(raw)
		w.Close()
		comp = buf.Bytes()
		o.Classes = append(o.Classes, "envelope:"+c.Envelope)
	}
	rawIn := base64.StdEncoding.EncodeToString(raw)
	compIn := base64.StdEncoding.EncodeToString(comp)
	ratio := float64(len(raw)) / float64(len(comp)+1)
	if ratio >= 1000 {
		o.Classes = append(o.Classes, "ratio>=1000")
	} else if ratio >= 64 {
		o.Classes = append(o.Classes, "ratio>=64")
	}
	spc := h.BaseSP()
	spc.MaxSize = c.Limit
	for _, e := range c12Entries {
		lim := L
		if !e.limited {
			lim = defaultLimit
		}
		sp := spc.Build()
		var ms0, ms1 runtime.MemStats
		runtime.ReadMemStats(&ms0)
		res, err := e.f(sp, compIn)
		runtime.ReadMemStats(&ms1)
		alloc := int64(ms1.TotalAlloc - ms0.TotalAlloc)
		size := int64(len(raw))
		if firstStream > 0 && firstStream <= lim && err == nil {
			// several streams, and the FIRST one is within the limit and a complete document by itself (the padding
			// after the root is white space or junk): a decoder that stops at the end of the first stream has seen a
			// message within the limit. Nothing to demand of the verdict; the memory bound below still applies.
			o.Classes = append(o.Classes, "multi:first-stream-complete")
			if size >= 64*lim {
				if bound := 8*maxI64(lim, int64(len(comp))) + 4<<20; alloc > bound {
					o.Violation = h.V("unbounded-inflation/"+e.name, "%s allocated %d bytes for %d back-to-back streams expanding to %d bytes in total (limit %d, bound %d)", e.name, alloc, 256, size, lim, bound)
					return o
				}
			}
			continue
		}
		if size > lim {
			if err == nil {
				o.Violation = h.V("over-limit-accepted/"+e.name, "%s accepted a compressed message inflating to %d bytes with limit %d", e.name, size, lim)
				return o
			}
			// the library must not have materialised (much) more than the limit
			bound := 8*maxI64(lim, int64(len(comp))) + 4<<20
			if size >= 64*lim && alloc > bound {
				o.Violation = h.V("unbounded-inflation/"+e.name, "%s allocated %d bytes while rejecting a %d-byte expansion (limit %d, input %d bytes, bound %d)", e.name, alloc, size, lim, len(comp), bound)
				return o
			}
			if size >= 64*lim {
				o.Classes = append(o.Classes, "alloc-bounded")
			}
			continue
		}
		if c.Envelope != "" {
			continue // not raw DEFLATE: nothing promised within the limit
		}
		// within the limit: identical to the raw presentation
		res2, err2 := e.f(spc.Build(), rawIn)
		a, b := classify(res, err), classify(res2, err2)
		if a.Class != b.Class {
			o.Violation = h.V("not-transparent/"+e.name, "%s: compressed => %s (%v), raw => %s (%v); size %d limit %d", e.name, a.Class, err, b.Class, err2, size, lim)
			return o
		}
		if a.Class == "accepted" && !reflect.DeepEqual(a.Data, b.Data) {
			o.Violation = h.V("not-transparent-data/"+e.name, "%s: compressed and raw presentations return different data", e.name)
			return o
		}
		if a.Class == "accepted" {
			o.Classes = append(o.Classes, "within-limit-accepted")
		}
	}
	// ---- the same payload on an unverified decoder FIRST (a multi-IdP deployment pre-decodes every message), then on
	// a validator of a service provider with its own limit: the second call decides by its own limit, exactly as alone
	if size := int64(len(raw)); size > L && size <= defaultLimit && len(comp) < 1<<20 && firstStream == 0 {
		for _, pre := range c12Entries {
			if pre.limited {
				continue
			}
			for _, e := range c12Entries {
				if !e.limited {
					continue
				}
				pre.f(nil, compIn)
				if _, err := e.f(spc.Build(), compIn); err == nil {
					o.Violation = h.V("over-limit-accepted-after-predecode/"+e.name, "%s accepted a compressed message inflating to %d bytes with limit %d when %s had just decoded the same payload", e.name, size, L, pre.name)
					return o
				}
				o.Classes = append(o.Classes, "predecode-then-validate")
			}
		}
	}
	o.Classes = dedup(o.Classes)
	return o
}

func maxI64(a, b int64) int64 {
	if a > b {
		return a
	}
	return b
}

func TestC12(t *testing.T) { h.RunProp(t, "C12", genC12, checkC12) }
func TestC12_Replay(t *testing.T) {
	h.RunReplay(t, "C12", checkC12)
	h.RunReplay(t, "C12.twin", checkC12Twin)
	h.RunReplay(t, "C12.enc", checkC12Enc)
	h.RunReplay(t, "C12.stored", checkC12Stored)
	h.RunReplay(t, "C12.small", checkC12Twin)
	h.RunReplay(t, "C12.ratio", checkC12Twin)
}

// TestC12_Grid: the exact boundary for every limit and entry point, plus the default limit and a bomb.
func TestC12_Grid(t *testing.T) {
	var cases []C12Case
	limits := []int64{0, 1, 64, 1024, 5000, 8 * 1024, 64 * 1024}
	for _, l := range limits {
		for _, kind := range []string{"response", "LogoutRequest", "LogoutResponse"} {
			L := effLimit(l)
			for _, rel := range []struct {
				n string
				s int64
			}{{"L-1", L - 1}, {"L", L}, {"L+1", L + 1}, {"2L", 2 * L}} {
				if L == defaultLimit && kind != "response" && !h.Thorough() {
					continue
				}
				cases = append(cases, C12Case{Limit: l, Size: rel.s, Payload: "valid-padded", Kind: kind, Level: 6, Relation: rel.n})
				cases = append(cases, C12Case{Limit: l, Size: rel.s, Payload: "valid-ws-padded", Kind: kind, Level: 1, Relation: rel.n})
				if L >= 8*1024 && (L != defaultLimit || kind == "response") {
					cases = append(cases, C12Case{Limit: l, Size: rel.s, Payload: "valid-utf8-padded", Kind: kind, Level: []int{6, 0, 9, 1}[len(cases)%4], Relation: rel.n})
				}
				if L != defaultLimit {
					cases = append(cases, C12Case{Limit: l, Size: rel.s, Payload: "valid-nul-padded", Kind: kind, Level: 6, Relation: rel.n})
				}
				if L != defaultLimit || h.Thorough() {
					// stored blocks make the compressed form LARGER than its expansion; Huffman-only barely shrinks it
					cases = append(cases, C12Case{Limit: l, Size: rel.s, Payload: "valid-padded", Kind: kind, Level: 0, Relation: rel.n}, C12Case{Limit: l, Size: rel.s, Payload: "valid-padded", Kind: kind, Level: -2, Relation: rel.n})
				}
			}
			bomb := int64(32 << 20)
			if h.Thorough() {
				bomb = 512 << 20
			}
			if kind == "response" || h.Thorough() {
				cases = append(cases, C12Case{Limit: l, Size: bomb, Payload: "run", Kind: kind, Level: 9, Relation: "bomb"})
			}
			if l != 0 || kind == "response" {
				L := effLimit(l)
				cases = append(cases, C12Case{Limit: l, Size: 2*L - 2, Payload: "valid-padded", Kind: kind, Level: 6, Relation: "2L", Envelope: "multi-2"},
					C12Case{Limit: l, Size: 2 * L, Payload: "valid-ws-padded", Kind: kind, Level: 1, Relation: "2L", Envelope: "multi-3"})
				if L <= 64*1024 {
					cases = append(cases, C12Case{Limit: l, Size: 200 * L, Payload: "valid-padded", Kind: kind, Level: 6, Relation: "64L", Envelope: "multi-many"})
				}
			}
			if l == 0 || l == 1024 || h.Thorough() {
				for _, env := range []string{"zlib", "gzip"} {
					cases = append(cases, C12Case{Limit: l, Size: bomb, Payload: "run", Kind: kind, Level: 9, Relation: "bomb", Envelope: env},
						C12Case{Limit: l, Size: bomb, Payload: "valid-padded", Kind: kind, Level: 6, Relation: "bomb", Envelope: env})
				}
			}
		}
	}
	// a configured limit ABOVE the default, and a message between the two: every validator honours its own limit
	// at every stage (the unverified decoders keep the default and refuse)
	for _, kind := range []string{"response", "response-asrt", "LogoutRequest"} {
		cases = append(cases, C12Case{Limit: 8 << 20, Size: defaultLimit + 64<<10, Payload: "valid-padded", Kind: kind, Level: 6, Relation: "default<size<limit"})
	}
	cases = append(cases, C12Case{Limit: 1 << 40, Size: defaultLimit + 1, Payload: "valid-ws-padded", Kind: "response-asrt", Level: 1, Relation: "default<size<limit"})
	for i, n := range []int64{4096, 8192, 16384, 32768, 65536, 131072, 262144} {
		for d := int64(-2); d <= 3; d++ {
			kind := []string{"response", "LogoutRequest", "LogoutResponse"}[(i+int(d)+2)%3]
			cases = append(cases, C12Case{Limit: 0, Size: n + int64(len(c12BaseXML(kind))) + 7 + d, Payload: "valid-utf8-padded", Kind: kind, Level: []int{6, 0, 9}[i%3], Relation: "small"})
		}
	}
	for _, l := range []int64{math.MaxInt64, math.MaxInt64 - 1, 1 << 62, 1 << 33} {
		for i, kind := range []string{"response", "LogoutRequest", "LogoutResponse"} {
			cases = append(cases, C12Case{Limit: l, Size: int64(len(c12BaseXML(kind)) + 100 + i), Payload: "valid-padded", Kind: kind, Level: []int{6, 0, 9}[i], Relation: "small"})
		}
	}
	h.RunCases(t, "C12", cases, checkC12)
}

// ---- transparency on realistic accepted / rejected messages (C03, C10 generators) -----------------

type C12Twin struct {
	SP     h.SPConfig `json:"sp"`
	Kind   string     `json:"kind"`
	RawXML string     `json:"rawXML"`
	Level  int        `json:"level"`
	Source string     `json:"source"`
}

func genC12Twin(t *rapid.T) C12Twin {
	tw := C12Twin{Level: rapid.IntRange(-2, 9).Draw(t, "level")}
	if rapid.Bool().Draw(t, "sso") {
		c := genC03(t)
		raw, _ := base64.StdEncoding.DecodeString(c.Encoded)
		if c.Issue.Pres.Deflate {
			raw, _ = inflate(raw)
		}
		tw.SP, tw.Kind, tw.RawXML, tw.Source = c.SP, "response", string(raw), fmt.Sprintf("C03 k=%d", len(c.Faults))
	} else {
		c := genC10(t)
		raw, _ := base64.StdEncoding.DecodeString(c.Encoded)
		if c.Issue.Pres.Deflate {
			raw, _ = inflate(raw)
		}
		tw.SP, tw.Kind, tw.RawXML, tw.Source = c.SP, c.Issue.Model.Kind, string(raw), "C10 "+c.SigState+fmt.Sprintf(" k=%d", len(c.Faults))
	}
	if rapid.IntRange(0, 2).Draw(t, "limitSet") == 0 {
		tw.SP.MaxSize = int64(len(tw.RawXML)) + rapid.Int64Range(0, 100).Draw(t, "headroom")
	}
	return tw
}

// genC12Small: small documents whose longest repeated substring has a chosen length. The first byte of the
// stream Go's compressor emits for them is (HLIT<<3)|4 with HLIT fixed by the longest match, so the compressed
// presentations begin with very different bytes (control characters, digits, letters, '<', '|', ...): whatever
// the decoder guesses from the first bytes of the input must not change the outcome.
func genC12Small(t *rapid.T) C12Twin {
	tw := C12Twin{SP: h.BaseSP(), Level: rapid.SampledFrom([]int{-1, -1, 1, 2, 5, 6, 9, -2, 0}).Draw(t, "level")}
	tw.SP.Skip = rapid.Bool().Draw(t, "skip")
	tw.Kind = rapid.SampledFrom([]string{"Response", "LogoutRequest", "LogoutResponse"}).Draw(t, "kind")
	L := rapid.IntRange(3, 40).Draw(t, "longestMatch")
	if rapid.IntRange(0, 3).Draw(t, "longMatch") == 0 {
		L = rapid.IntRange(3, 258).Draw(t, "longestMatchAny")
	}
	start := rapid.IntRange(0, 82).Draw(t, "alphaStart")
	step := rapid.SampledFrom([]int{1, 3, 5, 7, 11, 13}).Draw(t, "alphaStep")
	filler := rapid.StringMatching(`[a-zA-Z0-9 ]{0,120}`).Draw(t, "filler")
	full := rapid.IntRange(0, 2).Draw(t, "withIssuer") == 0
	tw.RawXML, tw.Source = smallDoc(tw.SP, tw.Kind, L, start, step, filler, full), fmt.Sprintf("small L=%d", L)
	return tw
}

// smallDoc: a small protocol message with a comment that holds one string of length L twice.
func smallDoc(sp h.SPConfig, kind string, L, start, step int, filler string, full bool) string {
	// a string without inner repeats: code points of a large alphabet at a fixed stride
	alpha := []rune("abcdefghijklmnopqrstuvwxyzABCDEFGHIJKLMNOPQRSTUVWXYZ013456789_-+*/%$#@!~^(){}[];,")
	rep := make([]rune, L)
	for i := range rep {
		rep[i] = alpha[(start+i*step+(i/len(alpha))*17)%len(alpha)]
	}
	var sb strings.Builder
	dest := sp.SLO
	if kind == "Response" {
		dest = sp.ACS
	}
	sb.WriteString("<" + kind + ` xmlns="urn:oasis:names:tc:SAML:2.0:protocol" ID="_q" Version="2.0" Destination="` + dest + `">`)
	// a second SAML namespace (Issuer, Status) repeats 35 characters of the first and so fixes the longest
	// match; two thirds of the documents do without (they are rejected for the missing Issuer — identically
	// in both presentations, which is all that is compared here)
	if full {
		sb.WriteString(`<Issuer xmlns="urn:oasis:names:tc:SAML:2.0:assertion">` + sp.IdPIssuer + `</Issuer>`)
	}
	sb.WriteString("<!--" + string(rep) + "|" + filler + "|" + string(rep) + "-->")
	if kind == "LogoutResponse" && full {
		sb.WriteString(`<Status><StatusCode Value="urn:oasis:names:tc:SAML:2.0:status:Success"/></Status>`)
	}
	sb.WriteString("</" + kind + ">")
	return sb.String()
}

// TestC12_GridSmall: every longest-match length 3..48 x message kind x compression level, so that every
// first byte Go's compressor can produce for a small document is presented.
func TestC12_GridSmall(t *testing.T) {
	var cases []C12Twin
	for ki, kind := range []string{"Response", "LogoutRequest", "LogoutResponse"} {
		for L := 3; L <= 48; L++ {
			for li, level := range []int{-1, 1, 4, 9} {
				sp := h.BaseSP()
				sp.Skip = (L+li)%2 == 0
				cases = append(cases, C12Twin{SP: sp, Kind: kind, Level: level, Source: fmt.Sprintf("small L=%d", L),
					RawXML: smallDoc(sp, kind, L, L+ki, []int{1, 3, 5, 7}[li], "the quick brown fox"[:(L*3)%19], (L+ki+li)%3 == 0)})
			}
		}
	}
	h.RunCases(t, "C12.small", cases, checkC12Twin)
}

func checkC12Twin(c C12Twin) h.Outcome {
	o := h.Outcome{NonTrivial: true, Classes: []string{"twin:" + c.Kind, fmt.Sprintf("level:%d", c.Level), fmt.Sprintf("limitSet:%v", c.SP.MaxSize != 0)}}
	rawIn := base64.StdEncoding.EncodeToString([]byte(c.RawXML))
	if d := h.Deflate([]byte(c.RawXML), c.Level); len(d) > 0 {
		o.Classes = append(o.Classes, fmt.Sprintf("firstbyte:%02x", d[0]))
	}
	compIn := base64.StdEncoding.EncodeToString(h.Deflate([]byte(c.RawXML), c.Level))
	for _, e := range c12Entries {
		r1, e1 := e.f(c.SP.Build(), rawIn)
		r2, e2 := e.f(c.SP.Build(), compIn)
		a, b := classify(r1, e1), classify(r2, e2)
		if a.Class != b.Class {
			o.Violation = h.V("not-transparent/"+e.name, "%s: raw => %s (%v), compressed => %s (%v) [%s]", e.name, a.Class, e1, b.Class, e2, c.Source)
			return o
		}
		if a.Class == "accepted" && !reflect.DeepEqual(a.Data, b.Data) {
			o.Violation = h.V("not-transparent-data/"+e.name, "%s: raw and compressed presentations return different data [%s]", e.name, c.Source)
			return o
		}
		if e.name == "ValidateEncodedResponse" || e.name == "ValidateEncodedLogoutRequestPOST" {
			o.Classes = append(o.Classes, e.name+":"+a.Class)
		}
	}
	o.Classes = dedup(o.Classes)
	return o
}

func TestC12_PTwin(t *testing.T) { h.RunProp(t, "C12.twin", genC12Twin, checkC12Twin) }

// ---- bomb inside an EncryptedAssertion: the decrypted plaintext goes through the same bounded inflate ----

type C12Enc struct {
	Limit int64  `json:"limit"`
	Size  int64  `json:"size"`
	Alg   string `json:"alg"`
	Level int    `json:"level"`
}

func checkC12Enc(c C12Enc) h.Outcome {
	o := h.Outcome{NonTrivial: true, Classes: []string{"payload:encrypted-bomb", fmt.Sprintf("limit:%d", c.Limit), "alg:" + shortAlg(c.Alg)}}
	L := effLimit(c.Limit)
	spc := h.BaseSP()
	spc.MaxSize = c.Limit
	spc.Enc = h.KeyCfg{Mode: "tls", Field: h.CertRef{Key: "E1", Window: "wide"}}
	plain := h.Deflate(bytes.Repeat([]byte{'A'}, int(c.Size)), c.Level)
	ivn := 16
	if h.IsGCM(c.Alg) {
		ivn = 12
	}
	e := &h.EncSpec{DataAlg: c.Alg, Transport: h.Transports[0], Digest: "-", To: h.CertRef{Key: "E1", Window: "wide"}, Key: make([]byte, h.KeyLen(c.Alg)), IV: make([]byte, ivn)}
	g := gridGenuine(spc, 1, "none")
	root, _ := g.Tree()
	ea, err := e.EncryptElement(plain, g.NS)
	if err != nil {
		o.Violation = h.V("harness/encrypt", "%v", err)
		return o
	}
	a := h.AssertionElements(root)[0]
	idx := a.Index()
	root.RemoveChildAt(idx)
	root.InsertChildAt(idx, ea)
	in := h.Encode(h.Serialize(root, h.Layout{}), h.Presentation{})
	for _, name := range []string{"ValidateEncodedResponse", "RetrieveAssertionInfo"} {
		sp := spc.Build()
		var ms0, ms1 runtime.MemStats
		runtime.ReadMemStats(&ms0)
		var err error
		if name == "ValidateEncodedResponse" {
			_, err = sp.ValidateEncodedResponse(in)
		} else {
			_, err = sp.RetrieveAssertionInfo(in)
		}
		runtime.ReadMemStats(&ms1)
		alloc := int64(ms1.TotalAlloc - ms0.TotalAlloc)
		if err == nil {
			o.Violation = h.V("over-limit-accepted/encrypted/"+name, "accepted an encrypted assertion whose plaintext inflates to %d bytes (limit %d)", c.Size, L)
			return o
		}
		// the decryption path legitimately copies its INPUT several times (base64, etree, detach, unmarshal,
		// decrypt), so the bound is proportional to the input, with a larger factor than for plain messages;
		// materialising the expansion would overshoot it by an order of magnitude
		bound := 32*maxI64(L, int64(len(in))) + 8<<20
		if c.Size >= 64*L && c.Size > 3*bound && alloc > bound {
			o.Violation = h.V("unbounded-inflation/encrypted/"+name, "%s allocated %d bytes while handling an encrypted assertion whose plaintext inflates to %d bytes (limit %d, bound %d)", name, alloc, c.Size, L, bound)
			return o
		}
	}
	return o
}

func TestC12_PEncBomb(t *testing.T) {
	h.RunProp(t, "C12.enc", func(t *rapid.T) C12Enc {
		size := int64(32 << 20)
		if h.Thorough() {
			size = 256 << 20
		}
		return C12Enc{Limit: rapid.SampledFrom([]int64{64, 1024, 8 * 1024, 64 * 1024}).Draw(t, "limit"), Size: size, Alg: rapid.SampledFrom(h.DataAlgs).Draw(t, "alg"), Level: rapid.IntRange(1, 9).Draw(t, "level")}
	}, checkC12Enc)
}

// ---- hand-made DEFLATE encodings: every valid encoding of a message must be treated like the message ----

type C12Stored struct {
	Kind   string `json:"kind"`
	Size   int    `json:"size"`   // the valid message is padded (trailing comment) to this size
	Blocks []int  `json:"blocks"` // stored-block lengths (the rest goes into further maximal blocks)
	Pads   []int  `json:"pads"`   // ignored header bits per block
	Limit  int64  `json:"limit"`
	Family string `json:"family"`
	Where  string `json:"where,omitempty"` // where the padding comment goes: "" = after the root, "inside" = first child of the root, "before" = in front of the root
}

// padAt is padTo with the padding comment at a chosen place (a comment inside the root is not part of the
// signed bytes: the base messages use a canonicaliser without comments).
func padAt(xml []byte, n int64, where string) []byte {
	need := int(n) - len(xml) - 7
	if need < 0 {
		return nil
	}
	at := len(xml)
	switch where {
	case "inside", "before":
		i := 0
		for i < len(xml) { // the root start tag: first '<' followed by a name character
			if xml[i] == '<' && i+1 < len(xml) && xml[i+1] != '?' && xml[i+1] != '!' {
				break
			}
			i++
		}
		at = i
		if where == "inside" {
			q := byte(0)
			for ; i < len(xml); i++ {
				if q != 0 {
					if xml[i] == q {
						q = 0
					}
				} else if xml[i] == '"' || xml[i] == '\'' {
					q = xml[i]
				} else if xml[i] == '>' {
					break
				}
			}
			at = i + 1
		}
	}
	out := make([]byte, 0, n)
	out = append(out, xml[:at]...)
	out = append(out, "<!--"...)
	out = append(out, bytes.Repeat([]byte{'p'}, need)...)
	out = append(out, "-->"...)
	return append(out, xml[at:]...)
}

func genC12Stored(t *rapid.T) C12Stored {
	c := C12Stored{Kind: rapid.SampledFrom([]string{"response", "LogoutRequest", "LogoutResponse"}).Draw(t, "kind"), Limit: rapid.SampledFrom([]int64{0, 0, 128 * 1024}).Draw(t, "limit")}
	c.Family = rapid.SampledFrom([]string{"random", "random", "xmlish-header"}).Draw(t, "family")
	c.Where = rapid.SampledFrom([]string{"", "inside", "inside", "before"}).Draw(t, "padWhere")
	c.Size = rapid.IntRange(len(c12BaseXML(c.Kind))+7, 70000).Draw(t, "size")
	nb := rapid.IntRange(1, 6).Draw(t, "nBlocks")
	for i := 0; i < nb; i++ {
		c.Blocks = append(c.Blocks, rapid.OneOf(rapid.IntRange(0, 40), rapid.IntRange(1, 65535)).Draw(t, "blockLen"))
		c.Pads = append(c.Pads, rapid.IntRange(0, 31).Draw(t, "pad"))
	}
	if c.Family == "xmlish-header" {
		// first block: header byte printable ASCII, LEN / NLEN bytes that read as text (two ASCII characters and
		// one two-byte UTF-8 sequence) — the compressed bytes then BEGIN like character data
		c.Size = rapid.IntRange(33000, 70000).Draw(t, "sizeLarge")
		lo := rapid.IntRange(0x20, 0x3f).Draw(t, "lenLo")
		hi := rapid.IntRange(0x40, 0x7f).Draw(t, "lenHi")
		if l := hi<<8 | lo; l < c.Size {
			c.Blocks[0] = l
		}
		c.Pads[0] = rapid.IntRange(4, 15).Draw(t, "padPrintable")
	}
	return c
}

func checkC12Stored(c C12Stored) h.Outcome {
	o := h.Outcome{NonTrivial: true, Classes: []string{"stored:" + c.Family, "kind:" + c.Kind, fmt.Sprintf("blocks:%d", len(c.Blocks))}}
	o.Classes = append(o.Classes, "pad:"+c.Where)
	raw := padAt(c12BaseXML(c.Kind), int64(c.Size), c.Where)
	if raw == nil {
		raw = c12BaseXML(c.Kind)
	}
	comp := h.DeflateStored(raw, c.Blocks, c.Pads)
	if back, err := rawInflate(comp); err != nil || !bytes.Equal(back, raw) {
		o.Violation = h.V("harness/stored-encoder", "hand-made stream does not inflate to the message: %v", err)
		return o
	}
	rawIn, compIn := base64.StdEncoding.EncodeToString(raw), base64.StdEncoding.EncodeToString(comp)
	spc := h.BaseSP()
	spc.MaxSize = c.Limit
	for _, e := range c12Entries {
		r1, e1 := e.f(spc.Build(), rawIn)
		r2, e2 := e.f(spc.Build(), compIn)
		a, b := classify(r1, e1), classify(r2, e2)
		if a.Class != b.Class {
			o.Violation = h.V("not-transparent/"+e.name, "%s: raw => %s (%v), hand-made stored-block encoding => %s (%v)", e.name, a.Class, e1, b.Class, e2)
			return o
		}
		if a.Class == "accepted" && !reflect.DeepEqual(a.Data, b.Data) {
			o.Violation = h.V("not-transparent-data/"+e.name, "%s: raw and stored-block presentations return different data", e.name)
			return o
		}
		if a.Class == "accepted" {
			o.Classes = append(o.Classes, "accepted:"+e.name)
		}
	}
	return o
}

// padToRatio appends white space after the root until the document is EXACTLY r times as long as its DEFLATE
// encoding at the given level (fixed-point iteration; nil when it does not settle).
func padToRatio(base []byte, r, level int) []byte {
	k := 0
	for iter := 0; iter < 60; iter++ {
		doc := append(append([]byte{}, base...), bytes.Repeat([]byte{' '}, k)...)
		c := len(h.Deflate(doc, level))
		want := r*c - len(base)
		if want < 0 {
			return nil
		}
		if want == k {
			return doc
		}
		k = want
	}
	return nil
}

// TestC12_GridRatios: inflated length an exact small multiple of the compressed length, and exact powers of two
// (+-1) — the sizes at which a growing read buffer is exactly full when the stream ends.
func TestC12_GridRatios(t *testing.T) {
	var cases []C12Twin
	for _, kind := range []string{"response", "LogoutRequest", "LogoutResponse"} {
		base := c12BaseXML(kind)
		for _, level := range []int{-1, 1, 9} {
			for _, r := range []int{3, 4, 5, 6, 8, 10, 12, 16, 32} {
				if doc := padToRatio(base, r, level); doc != nil {
					cases = append(cases, C12Twin{SP: h.BaseSP(), Kind: kind, RawXML: string(doc), Level: level, Source: fmt.Sprintf("ratio %d:1", r)})
				}
			}
		}
		for sh := 12; sh <= 20; sh++ {
			for _, d := range []int{-1, 0, 1} {
				n := 1<<sh + d
				if n < len(base) {
					continue
				}
				doc := append(append([]byte{}, base...), bytes.Repeat([]byte{'\n'}, n-len(base))...)
				cases = append(cases, C12Twin{SP: h.BaseSP(), Kind: kind, RawXML: string(doc), Level: 6, Source: fmt.Sprintf("size 2^%d%+d", sh, d)})
			}
		}
	}
	if len(cases) < 60 {
		t.Fatalf("harness: only %d ratio / size cases could be built", len(cases))
	}
	h.RunCases(t, "C12.ratio", cases, checkC12Twin)
}

func TestC12_PSmall(t *testing.T) { h.RunProp(t, "C12.small", genC12Small, checkC12Twin) }

func TestC12_PStored(t *testing.T) { h.RunProp(t, "C12.stored", genC12Stored, checkC12Stored) }

// TestC12_GridStored: every printable header byte x a spread of "textual" LEN values.
func TestC12_GridStored(t *testing.T) {
	var cases []C12Stored
	for pad := 4; pad <= 15; pad++ {
		for _, l := range []int{0x4020, 0x4a2f, 0x5533, 0x7f3f, 0x6021} {
			cases = append(cases, C12Stored{Kind: []string{"response", "LogoutResponse", "LogoutRequest"}[pad%3], Size: 40000, Blocks: []int{l, 900}, Pads: []int{pad, 0, 3}, Family: "xmlish-header", Where: []string{"inside", "", "before", "inside"}[(pad+l)%4]})
		}
	}
	h.RunCases(t, "C12.stored", cases, checkC12Stored)
}
