package props

import (
	"testing"

	h "verif/harness"

	"crypto/aes"
	"crypto/cipher"
	"encoding/xml"
	"fmt"
)

// rawCBC encrypts raw (a multiple of the block size, no padding added) and returns IV||ciphertext.
func rawCBC(key, iv, raw []byte) ([]byte, error) {
	blk, err := aes.NewCipher(key)
	if err != nil {
		return nil, err
	}
	if len(raw)%16 != 0 || len(iv) != 16 {
		return nil, fmt.Errorf("bad lengths")
	}
	out := make([]byte, 16+len(raw))
	copy(out, iv)
	cipher.NewCBCEncrypter(blk, iv).CryptBlocks(out[16:], raw)
	return out, nil
}

func xmlUnmarshal(b []byte, v interface{}) error { return xml.Unmarshal(b, v) }

// report evaluates one enumerated case and fails the test on an unlisted violation.
func report[C any](t *testing.T, check string, c C, f func(C) h.Outcome) {
	if path, v := h.Eval(check, c, f); path != "" {
		t.Errorf("VIOLATION-CANDIDATE property=%s sig=%s replay=%s\n%s", h.PropOf(check), v.Sig, path, v.Detail)
	}
}
