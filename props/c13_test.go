package props

import (
	"bytes"
	"encoding/base64"
	"errors"
	"fmt"
	"net/url"
	"regexp"
	"strings"
	"testing"
	"time"

	"github.com/beevik/etree"
	saml2 "github.com/russellhaering/gosaml2"
	"github.com/russellhaering/gosaml2/types"
	dsig "github.com/russellhaering/goxmldsig"
	"pgregory.net/rapid"

	h "verif/harness"
)

// C13 — outgoing enveloped signatures verify after serialisation with the configured key.
// C15 — outgoing messages are well-formed, schema-ordered and faithful to configuration.
// Both look at the same generated outgoing messages with a conforming recipient's eyes.

type OutCase struct {
	SP      h.SPConfig `json:"sp"`
	Kind    string     `json:"kind"` // authn-doc | authn-str | logout-req | logout-resp
	Signed  bool       `json:"signed"`
	NameID  string     `json:"nameID"`
	Session string     `json:"session"`
	Status  string     `json:"status"`
	ReqID   string     `json:"reqID"`
	Resign  bool       `json:"resign,omitempty"` // with Direct: the document handed to Sign* is the SIGNED one (signed again); the new signature, placed after the Issuer, must verify
	// Via (C15): the message is judged as the RECIPIENT of a binding gets it — "redirect-url": taken out of the
	// redirect URL's SAMLRequest parameter and inflated; "post-body": taken out of the POST form's hidden field —
	// instead of as the document's own serialisation. It is the same message.
	Via    string `json:"via,omitempty"`
	Direct bool   `json:"direct,omitempty"` // signed by calling the exported SignAuthnRequest / SignLogoutRequest / SignLogoutResponse on the unsigned document's root
}

var keyModes = []string{"none", "tls", "custom", "setter", "both"}

// genKeyCfg draws how one key slot is configured. ECDSA keys are possible only through setters.
func genKeyCfg(t *rapid.T, label string, fieldKey, setterKey string, allowEC bool) h.KeyCfg {
	mode := rapid.SampledFrom(keyModes).Draw(t, label+"Mode")
	k := h.KeyCfg{Mode: mode, Field: h.CertRef{Key: fieldKey, Window: rapid.SampledFrom(h.SPWindows).Draw(t, label+"FieldCert")}, Setter: h.CertRef{Key: setterKey, Window: rapid.SampledFrom(h.SPWindows).Draw(t, label+"SetterCert")}}
	k.Chain = rapid.IntRange(0, 3).Draw(t, label+"Chain") == 0
	if allowEC && (mode == "setter" || mode == "both") && rapid.IntRange(0, 3).Draw(t, label+"EC") == 0 {
		k.Setter = h.CertRef{Key: "S3", Window: "wide"}
	}
	return k
}

// expectedSigner implements the documented precedence: signing setter > signing field > encryption setter > encryption field.
func expectedSigner(sp h.SPConfig) (h.CertRef, bool) {
	if c, ok := sp.Sig.Effective(); ok {
		return c, true
	}
	return sp.Enc.Effective()
}

func genOutText(t *rapid.T, label string, attr bool) string {
	o := h.TextOpts{MaxLen: 5}
	if h.Open("C13", "cr-breaks-own-signature") || h.Open("C15", "cr-not-preserved-in-output") {
		o.NoCR = true
		o.OnExclude = func(w string) { h.CountExcluded("C13", "excluded-by-construction:"+w) }
	}
	s := h.GenText(o).Draw(t, label)
	if attr && (h.Open("C13", "attr-whitespace-breaks-own-signature") || h.Open("C15", "attr-whitespace-not-preserved-in-output")) {
		if strings.ContainsAny(s, "\t\n") {
			h.CountExcluded("C13", "excluded-by-construction:attr-tab-lf")
			s = strings.NewReplacer("\t", " ", "\n", " ").Replace(s)
		}
	}
	return s
}

func genOutCase(t *rapid.T, forceSigned bool) OutCase {
	sp := h.BaseSP()
	if rapid.IntRange(0, 2).Draw(t, "hostileStrings") != 0 {
		sp.IdPSSO = genOutText(t, "idpSSO", true)
		sp.IdPSLO = genOutText(t, "idpSLO", true)
		sp.ACS = genOutText(t, "acs", true)
		sp.SPIssuer = genOutText(t, "spIssuer", false)
		sp.IdPIssuer = genOutText(t, "idpIssuer", false)
		sp.NameIDFormat = genOutText(t, "nameIDFormat", true)
	}
	if rapid.IntRange(0, 3).Draw(t, "noSPIssuer") == 0 {
		sp.SPIssuer = ""
	}
	switch rapid.IntRange(0, 5).Draw(t, "noFormat") {
	case 0, 1:
		sp.NameIDFormat = ""
	case 2:
		// one step away from a registered format identifier (or from any other constant of the implementation)
		if v := h.GenLookAlike(rapid.SampledFrom([]string{"nameid-format", "nameid-format", "urn:", ""}).Draw(t, "lookAlikeFamily")).Draw(t, "formatLookAlike"); v != "" {
			sp.NameIDFormat = v
		}
	case 3:
		if d := h.CodeLiterals(); len(d) > 0 {
			sp.NameIDFormat = rapid.SampledFrom(d).Draw(t, "formatLiteral")
		}
	}
	sp.ForceAuthn = rapid.Bool().Draw(t, "forceAuthn")
	sp.IsPassive = rapid.Bool().Draw(t, "isPassive")
	if rapid.Bool().Draw(t, "rac") {
		sp.RAC = &h.RAC{Comparison: rapid.SampledFrom([]string{"exact", "minimum", "maximum", "better", ""}).Draw(t, "comparison")}
		if rapid.IntRange(0, 3).Draw(t, "hostileComparison") == 0 {
			sp.RAC.Comparison = genOutText(t, "comparisonFree", true)
		}
		n := rapid.IntRange(0, 4).Draw(t, "nContexts")
		for i := 0; i < n; i++ {
			if rapid.IntRange(0, 3).Draw(t, "multiWordContext") == 0 {
				sp.RAC.Contexts = append(sp.RAC.Contexts, rapid.SampledFrom([]string{"a b", "b c", "urn:x urn:y", "level 2 strong", "a  b"}).Draw(t, "contextWords"))
				continue
			}
			sp.RAC.Contexts = append(sp.RAC.Contexts, genOutText(t, "context", false))
		}
	}
	// clock: any instant in years 1..9999, any zone, any nanosecond
	minT := time.Date(1, 1, 1, 0, 0, 0, 0, time.UTC).Unix()
	maxT := time.Date(9999, 12, 31, 23, 59, 59, 0, time.UTC).Unix()
	if rapid.Bool().Draw(t, "extremeClock") {
		sec := rapid.Int64Range(minT, maxT).Draw(t, "clockSec")
		// UnixNano cannot represent the whole range: keep to what int64 nanoseconds hold
		lo, hi := time.Date(1678, 1, 1, 0, 0, 0, 0, time.UTC).Unix(), time.Date(2262, 1, 1, 0, 0, 0, 0, time.UTC).Unix()
		if sec < lo {
			sec = lo + (lo-sec)%(hi-lo)
		}
		if sec > hi {
			sec = lo + (sec-hi)%(hi-lo)
		}
		sp.NowUnixNano = sec*1e9 + rapid.Int64Range(0, 999999999).Draw(t, "clockNs")
	}
	sp.NowOffset = rapid.SampledFrom([]int{0, 0, 330, -480, 840, -720, 1}).Draw(t, "clockZone")
	if rapid.IntRange(0, 4).Draw(t, "dstClock") == 0 {
		// a clock in a DST-observing zone within three hours of an offset change (covers the repeated hour)
		zc := h.GenClockNearDST().Draw(t, "dst")
		if at, err := time.Parse(time.RFC3339Nano, zc[1]); err == nil {
			sp.NowZone, sp.NowUnixNano = zc[0], at.UnixNano()
		}
	}
	// keys
	sp.Enc = genKeyCfg(t, "enc", "E1", "E2", true)
	sp.Sig = genKeyCfg(t, "sig", "S1", "S2", true)
	if forceSigned {
		if _, ok := expectedSigner(sp); !ok {
			sp.Enc = h.KeyCfg{Mode: "tls", Field: h.CertRef{Key: "E1", Window: "wide"}}
		}
	}
	// the IdP's binding identifiers (what its metadata says about its endpoints): every builder produces the binding
	// it is named after, whatever these say
	bindings := []string{"", "", saml2.BindingHttpPost, saml2.BindingHttpRedirect, "urn:oasis:names:tc:SAML:2.0:bindings:HTTP-Artifact"}
	sp.IdPSSOBinding = rapid.SampledFrom(bindings).Draw(t, "idpSSOBinding")
	sp.IdPSLOBinding = rapid.SampledFrom(bindings).Draw(t, "idpSLOBinding")
	// endpoints that are URLs with a feature a URL library may "normalise": default port, upper-case host, userinfo,
	// IPv6 literal, empty query, trailing dot, escapes in the path — the message carries the configured STRING
	if rapid.IntRange(0, 3).Draw(t, "urlShapedEndpoints") == 0 {
		shapes := []string{"https://idp.example.com:443/saml/sso", "http://idp.example.com:80/sso", "HTTPS://IDP.Example.COM/sso", "https://user:pw@idp.example.com/sso", "https://[2001:db8::1]:8443/sso",
			"https://idp.example.com/sso?", "https://idp.example.com./sso", "https://idp.example.com/a%2Fb/%7Esso", "https://idp.example.com/sso#frag", "https://idp.example.com", "https://idp.example.com/sso/../slo", "//idp.example.com/sso", "https://xn--idp-example.com/ssö"}
		sp.IdPSSO = rapid.SampledFrom(shapes).Draw(t, "idpSSOShape")
		sp.IdPSLO = rapid.SampledFrom(shapes).Draw(t, "idpSLOShape")
		sp.ACS = rapid.SampledFrom(shapes).Draw(t, "acsShape")
		sp.SLO = rapid.SampledFrom(shapes).Draw(t, "sloShape")
	}
	// options that govern INBOUND processing only: what the service provider sends, and the certificate it reports
	// and signs with, are the same whatever they are set to
	sp.ValidateEncCert = rapid.Bool().Draw(t, "validateEncCert")
	sp.Skip = rapid.IntRange(0, 3).Draw(t, "skipSigValidation") == 0
	sp.AllowMissing = rapid.IntRange(0, 3).Draw(t, "allowMissingAttributes") == 0
	sp.MaxSize = rapid.SampledFrom([]int64{0, 0, 1, 4096}).Draw(t, "maxDecompressed")
	if rapid.IntRange(0, 5).Draw(t, "emptyIdPStore") == 0 {
		sp.Store = nil
	}
	signer, hasKey := expectedSigner(sp)
	sp.SignRequests = rapid.Bool().Draw(t, "signRequests")
	if hasKey {
		ec := h.K(signer.Key).Kind == "ecdsa"
		switch {
		case rapid.IntRange(0, 2).Draw(t, "defaultAlg") == 0:
			sp.SignAlg = ""
		case ec:
			sp.SignAlg = rapid.SampledFrom(h.ECMethods).Draw(t, "alg")
		default:
			sp.SignAlg = rapid.SampledFrom(h.RSAMethods).Draw(t, "alg")
		}
		if rapid.IntRange(0, 2).Draw(t, "defaultC14N") != 0 {
			sp.SignC14N = rapid.SampledFrom(h.C14Ns).Draw(t, "c14n")
		}
	}
	if hasKey && rapid.IntRange(0, 7).Draw(t, "mismatchedAlg") == 0 {
		// an algorithm identifier that does not fit the key (or is unknown): whatever the library falls back
		// to, what it DECLARES must be what it USES (checked by verification under the declared method)
		if h.K(signer.Key).Kind == "ecdsa" {
			sp.SignAlg = rapid.SampledFrom(append(append([]string{}, h.RSAMethods...), "urn:unknown:sigalg")).Draw(t, "badAlg")
		} else {
			sp.SignAlg = rapid.SampledFrom(append(append([]string{}, h.ECMethods...), "urn:unknown:sigalg")).Draw(t, "badAlg")
		}
	}
	c := OutCase{SP: sp, Kind: rapid.SampledFrom([]string{"authn-doc", "authn-str", "logout-req", "logout-resp"}).Draw(t, "kind")}
	c.NameID = genOutText(t, "nameID", false)
	c.Session = genOutText(t, "session", false)
	c.Status = rapid.SampledFrom([]string{saml2.StatusCodeSuccess, saml2.StatusCodePartialLogout, saml2.StatusCodeUnknownPrincipal, ""}).Draw(t, "status")
	if rapid.IntRange(0, 3).Draw(t, "hostileStatus") == 0 {
		c.Status = genOutText(t, "statusFree", true)
	}
	c.ReqID = genOutText(t, "reqID", true)
	if rapid.IntRange(0, 3).Draw(t, "oneHot") == 0 {
		// exactly ONE field carries a white-space control character, every other string is plain
		plain := h.BaseSP()
		c.SP.IdPSSO, c.SP.IdPSLO, c.SP.ACS, c.SP.SPIssuer, c.SP.IdPIssuer, c.SP.NameIDFormat = plain.IdPSSO, plain.IdPSLO, plain.ACS, plain.SPIssuer, plain.IdPIssuer, ""
		c.NameID, c.Session, c.Status, c.ReqID = "user@example.com", "_s1", saml2.StatusCodeSuccess, "_r1"
		if c.SP.RAC != nil {
			c.SP.RAC = &h.RAC{Comparison: "exact", Contexts: []string{"urn:a"}}
		}
		ws := rapid.SampledFrom([]string{"\r", "\n", "\t", "\r\n", "a\rb", " \t "}).Draw(t, "wsChar")
		if (h.Open("C13", "cr-breaks-own-signature") || h.Open("C15", "cr-not-preserved-in-output")) && strings.Contains(ws, "\r") {
			ws = "\n"
		}
		v := "x" + ws + "y"
		switch rapid.IntRange(0, 11).Draw(t, "hotField") {
		case 0:
			c.SP.IdPSSO = v
		case 1:
			c.SP.IdPSLO = v
		case 2:
			c.SP.ACS = v
		case 3:
			c.SP.SPIssuer = v
		case 4:
			c.SP.SPIssuer, c.SP.IdPIssuer = "", v
		case 5:
			c.SP.NameIDFormat = v
		case 6:
			c.NameID = v
		case 7:
			c.Session = v
		case 8:
			c.Status = v
		case 9:
			c.ReqID = v
		case 10:
			c.SP.RAC = &h.RAC{Comparison: v, Contexts: []string{"urn:a"}}
		case 11:
			c.SP.RAC = &h.RAC{Comparison: "exact", Contexts: []string{"urn:a", v}}
		}
	}
	c.SP.LateSignOptions = rapid.IntRange(0, 2).Draw(t, "lateSignOptions") == 0
	if (c.SP.Enc.Mode == "custom" || c.SP.Enc.Mode == "both") && rapid.IntRange(0, 3).Draw(t, "shareFieldStore") == 0 {
		// one store object in both deprecated fields (optionally with an encryption-key setter on top): the signing
		// key is the FIELD store's key, whatever SetSPKeyStore says about decryption
		c.SP.Enc.FieldPtr, c.SP.Enc.Chain = true, false
		c.SP.Sig = h.KeyCfg{Mode: "custom", Field: c.SP.Enc.Field}
		c.SP.ShareFieldStore = true
		hasKey = true
	}
	c.Signed = hasKey && (forceSigned || rapid.Bool().Draw(t, "signed"))
	c.Direct = c.Signed && c.Kind != "authn-str" && rapid.IntRange(0, 3).Draw(t, "directSign") == 0
	c.Resign = c.Direct && rapid.IntRange(0, 2).Draw(t, "resign") == 0
	if c.Signed && strings.HasPrefix(c.Kind, "authn") {
		c.SP.SignRequests = true
	}
	return c
}

// produce calls the builder and serialises the way a caller does.
// siblingRAC returns a RequestedAuthnContext that carries the same words as rac, split differently between the
// Comparison and the contexts (same number of contexts): "a b","c" <-> "a","b c"; "minimum level",["x"] <->
// "minimum",["level x"]. Nil when rac has no such sibling. Whatever was built for the sibling must not leak.
func siblingRAC(rac *h.RAC) *h.RAC {
	if rac == nil {
		return nil
	}
	parts := append([]string{rac.Comparison}, rac.Contexts...)
	for i := 0; i+1 < len(parts); i++ {
		if j := strings.LastIndex(parts[i], " "); j > 0 && j+1 < len(parts[i]) { // move the last word to the right
			sib := append([]string{}, parts...)
			sib[i], sib[i+1] = parts[i][:j], parts[i][j+1:]+" "+parts[i+1]
			return &h.RAC{Comparison: sib[0], Contexts: sib[1:]}
		}
		if j := strings.Index(parts[i+1], " "); j > 0 && j+1 < len(parts[i+1]) { // move the first word to the left
			sib := append([]string{}, parts...)
			sib[i], sib[i+1] = parts[i]+" "+parts[i+1][:j], parts[i+1][j+1:]
			return &h.RAC{Comparison: sib[0], Contexts: sib[1:]}
		}
	}
	return nil
}

// transport sends the message through a binding builder and returns what the recipient takes out of the URL or
// the form (doc nil: the builders that make the AuthnRequest themselves).
func (c *OutCase) transport(sp *saml2.SAMLServiceProvider, doc *etree.Document) (string, error) {
	via := c.Via
	endpoint := sp.IdentityProviderSSOURL
	if c.Kind == "logout-req" {
		endpoint = sp.IdentityProviderSLOURL
	}
	if via == "redirect-url" {
		_, keyOK := expectedSigner(c.SP)
		if _, perr := url.Parse(endpoint); c.Kind == "logout-resp" || !keyOK || perr != nil {
			via = "post-body" // no redirect builder for this message / nothing to sign the query with / not a URL
		}
	}
	if via == "redirect-url" {
		var got string
		var err error
		switch c.Kind {
		case "authn-str":
			got, err = sp.BuildAuthURL("")
		case "authn-doc":
			got, err = sp.BuildAuthURLRedirect("", doc)
		case "logout-req":
			got, err = sp.BuildLogoutURLRedirect("", doc)
		}
		if err != nil {
			return "", err
		}
		u, err := url.Parse(got)
		if err != nil {
			return "", fmt.Errorf("redirect URL does not parse: %v", err)
		}
		vals := u.Query()["SAMLRequest"]
		if len(vals) == 0 {
			return "", fmt.Errorf("redirect URL without SAMLRequest")
		}
		raw, err := base64.StdEncoding.DecodeString(vals[len(vals)-1])
		if err != nil {
			return "", fmt.Errorf("SAMLRequest is not base64: %v", err)
		}
		inf, err := rawInflate(raw)
		return string(inf), err
	}
	var body []byte
	var err error
	field := "SAMLRequest"
	switch c.Kind {
	case "authn-str":
		body, err = sp.BuildAuthBodyPost("")
	case "authn-doc":
		body, err = sp.BuildAuthBodyPostFromDocument("", doc)
	case "logout-req":
		body, err = sp.BuildLogoutBodyPostFromDocument("", doc)
	case "logout-resp":
		body, err = sp.BuildLogoutResponseBodyPostFromDocument("", doc)
		field = "SAMLResponse"
	}
	if err != nil {
		return "", err
	}
	page, err := readPage(body)
	if err != nil {
		return "", err
	}
	vals := page.inputs[field]
	if len(vals) == 0 {
		return "", fmt.Errorf("POST form without %s field", field)
	}
	raw, err := base64.StdEncoding.DecodeString(vals[len(vals)-1])
	return string(raw), err
}

func (c *OutCase) produce() (string, *saml2.SAMLServiceProvider, error) {
	if sib := siblingRAC(c.SP.RAC); sib != nil && strings.HasPrefix(c.Kind, "authn") {
		// another service provider in the same process, configured with the sibling, builds first
		o := c.SP
		o.RAC = sib
		o.Build().BuildAuthRequestDocumentNoSig()
	}
	sp := c.SP.Build()
	var doc *etree.Document
	var err error
	switch c.Kind {
	case "authn-str":
		if !c.Signed {
			sp.SignAuthnRequests = false
		}
		if c.Via != "" {
			s, err := c.transport(sp, nil)
			return s, sp, err
		}
		s, err := sp.BuildAuthRequest()
		return s, sp, err
	case "authn-doc":
		if c.Signed && c.Direct {
			build := sp.BuildAuthRequestDocumentNoSig
			if c.Resign {
				build = sp.BuildAuthRequestDocument
			}
			doc, err = signDirect(build, sp.SignAuthnRequest)
		} else if c.Signed {
			doc, err = sp.BuildAuthRequestDocument()
		} else {
			doc, err = sp.BuildAuthRequestDocumentNoSig()
		}
	case "logout-req":
		if c.Signed && c.Direct {
			doc, err = signDirect(func() (*etree.Document, error) {
				if c.Resign {
					return sp.BuildLogoutRequestDocument(c.NameID, c.Session)
				}
				return sp.BuildLogoutRequestDocumentNoSig(c.NameID, c.Session)
			}, sp.SignLogoutRequest)
		} else if c.Signed {
			doc, err = sp.BuildLogoutRequestDocument(c.NameID, c.Session)
		} else {
			doc, err = sp.BuildLogoutRequestDocumentNoSig(c.NameID, c.Session)
		}
	case "logout-resp":
		if c.Signed && c.Direct {
			doc, err = signDirect(func() (*etree.Document, error) {
				if c.Resign {
					return sp.BuildLogoutResponseDocument(c.Status, c.ReqID)
				}
				return sp.BuildLogoutResponseDocumentNoSig(c.Status, c.ReqID)
			}, sp.SignLogoutResponse)
		} else if c.Signed {
			doc, err = sp.BuildLogoutResponseDocument(c.Status, c.ReqID)
		} else {
			doc, err = sp.BuildLogoutResponseDocumentNoSig(c.Status, c.ReqID)
		}
	}
	if err != nil {
		return "", sp, err
	}
	s, err := doc.WriteToString()
	if err != nil {
		return s, sp, err
	}
	// the caller still holds doc while further messages are built (same instance, another instance): the
	// document it was given must stay what it was
	other := c.SP.Build()
	for _, b := range []*saml2.SAMLServiceProvider{sp, other} {
		b.BuildLogoutResponseDocumentNoSig(saml2.StatusCodeSuccess, "_later")
		b.BuildAuthRequestDocumentNoSig()
		b.BuildLogoutRequestDocumentNoSig("later@example.com", "_later_session")
	}
	if s2, _ := doc.WriteToString(); s2 != s {
		return s, sp, fmt.Errorf("%w: first %.300s now %.300s", errHeldChanged, s, s2)
	}
	// ... and it is handed to the binding builders (redirect first, then POST — a deployment that supports both
	// bindings, or retries with the other one): they transport the document, they do not edit it (errors of a
	// key that cannot sign are not this check's business)
	kind := c.Kind
	if _, hasKey := expectedSigner(c.SP); !hasKey {
		kind = "" // redirect URLs are signed: a service provider without any key is outside their domain
	}
	switch kind {
	case "authn-doc":
		sp.BuildAuthURLRedirect("relay", doc)
		sp.BuildAuthURLFromDocument("relay", doc)
		sp.BuildAuthBodyPostFromDocument("relay", doc)
	case "logout-req":
		sp.BuildLogoutURLRedirect("relay", doc)
		sp.BuildLogoutBodyPostFromDocument("relay", doc)
	case "logout-resp":
		sp.BuildLogoutResponseBodyPostFromDocument("relay", doc)
	}
	if s2, _ := doc.WriteToString(); s2 != s {
		return s, sp, fmt.Errorf("%w (after the binding builders transported it): first %.300s now %.300s", errHeldChanged, s, s2)
	}
	if c.Via != "" {
		s, err = c.transport(sp, doc)
	}
	return s, sp, err
}

// signDirect builds the unsigned document and has its root signed by one of the exported Sign* functions.
func signDirect(build func() (*etree.Document, error), sign func(*etree.Element) (*etree.Element, error)) (*etree.Document, error) {
	d, err := build()
	if err != nil {
		return nil, err
	}
	el, err := sign(d.Root())
	if err != nil {
		return nil, err
	}
	out := etree.NewDocument()
	out.WriteSettings = d.WriteSettings // serialise the way the library's own documents are set up to be
	out.SetRoot(el)
	return out, nil
}

var errHeldChanged = errors.New("a document returned earlier changed while later messages were built")

func (c *OutCase) strings() (text []string, attr []string) {
	sp := c.SP
	text = []string{sp.SPIssuer, sp.IdPIssuer}
	attr = []string{sp.ACS, sp.IdPSSO, sp.IdPSLO, sp.NameIDFormat}
	switch c.Kind {
	case "logout-req":
		text = append(text, c.NameID, c.Session)
	case "logout-resp":
		attr = append(attr, c.Status, c.ReqID)
	default:
		if sp.RAC != nil {
			attr = append(attr, sp.RAC.Comparison)
			text = append(text, sp.RAC.Contexts...)
		}
	}
	return
}

func (c *OutCase) charClasses() (cr, attrWS, interesting bool) {
	text, attr := c.strings()
	for _, s := range append(append([]string{}, text...), attr...) {
		if strings.Contains(s, "\r") {
			cr = true
		}
		if h.Interesting(s) {
			interesting = true
		}
	}
	for _, s := range attr {
		if strings.ContainsAny(s, "\t\n") {
			attrWS = true
		}
	}
	return
}

func (c *OutCase) classes() []string {
	cl := []string{"kind:" + c.Kind, "via:" + c.Via, fmt.Sprintf("signed:%v", c.Signed), fmt.Sprintf("direct-sign:%v", c.Direct), "enc:" + c.SP.Enc.Mode, "sig:" + c.SP.Sig.Mode}
	if c.Signed {
		alg := c.SP.SignAlg
		if alg == "" {
			alg = "default"
		}
		c14 := c.SP.SignC14N
		if c14 == "" {
			c14 = "default"
		}
		cl = append(cl, "alg:"+shortAlg(alg), "c14n:"+shortAlg(c14))
		if s, ok := expectedSigner(c.SP); ok {
			cl = append(cl, "signer:"+s.Key)
		}
	}
	cr, aws, in := c.charClasses()
	if cr {
		cl = append(cl, "value:CR")
	}
	if aws {
		cl = append(cl, "value:attr-tab-lf")
	}
	if in {
		cl = append(cl, "value:interesting")
	}
	if c.SP.NowOffset != 0 {
		cl = append(cl, "clock:non-utc")
	}
	if c.SP.NowZone != "" {
		cl = append(cl, "clock:near-dst-transition")
	}
	return cl
}

func checkC13(c OutCase) h.Outcome {
	o := h.Outcome{Classes: c.classes()}
	if !c.Signed {
		o.Excluded = "" // unsigned cases belong to C15 only; generator for C13 forces signing
	}
	cr, aws, interesting := c.charClasses()
	o.NonTrivial = !(c.SP.Enc.Mode == "tls" && c.SP.Sig.None() && c.SP.SignAlg == "" && !interesting)
	charSig := func(base string) string {
		// relabel only while the corresponding finding is listed as open, so that an unrelated failure in a
		// case that happens to contain such a character keeps its own signature
		switch {
		case cr && h.Open("C13", "cr-breaks-own-signature"):
			return "cr-breaks-own-signature"
		case aws && h.Open("C13", "attr-whitespace-breaks-own-signature"):
			return "attr-whitespace-breaks-own-signature"
		}
		return base
	}
	xml, sp, err := c.produce()
	if err != nil && (c.SP.Sig.FailSign || c.SP.Enc.FailSign) && !errors.Is(err, errHeldChanged) {
		o.Classes = append(o.Classes, "failing-signer:error")
		return o
	}
	if errors.Is(err, errHeldChanged) {
		o.Violation = h.V("held-document-changed/"+c.Kind, "%v", err)
		return o
	}
	if err != nil {
		o.Violation = h.V("build-error", "builder failed: %v", err)
		return o
	}
	want, _ := expectedSigner(c.SP)
	doc, err := h.RecipientParse([]byte(xml))
	if err != nil {
		o.Violation = h.V(charSig("output-not-wellformed"), "recipient cannot parse the produced message: %v", err)
		return o
	}
	reported, rerr := sp.GetSigningCertBytes()
	if rerr != nil {
		o.Violation = h.V("no-reported-cert", "GetSigningCertBytes: %v", rerr)
		return o
	}
	keySig := "signed-with-unreported-key/enc:" + c.SP.Enc.Mode + "/sig:" + c.SP.Sig.Mode
	if !bytes.Equal(reported, want.DER()) {
		o.Violation = h.V("reported-cert-precedence/enc:"+c.SP.Enc.Mode+"/sig:"+c.SP.Sig.Mode, "GetSigningCertBytes reports a certificate other than %v", want)
		return o
	}
	// ... and the one it PUBLISHES in its metadata (both variants), whatever SignAuthnRequests says: logout messages
	// are signed regardless of that flag, and a peer verifies them with the published certificate
	for vi, get := range []func() (*types.EntityDescriptor, error){sp.Metadata, func() (*types.EntityDescriptor, error) { return sp.MetadataWithSLO(24) }} {
		md, merr := get()
		if merr != nil && c.SP.Enc.None() {
			// without an encryption key the library produces no metadata at all ("empty SP encryption certificate"):
			// nothing is published, so nothing can be published wrongly
			o.Classes = append(o.Classes, "metadata:none-without-encryption-key")
			break
		}
		if merr != nil || md == nil || md.SPSSODescriptor == nil {
			o.Violation = h.V("metadata-error", "metadata variant %d: %v", vi, merr)
			return o
		}
		var published [][]byte
		for _, kd := range md.SPSSODescriptor.KeyDescriptors {
			if kd.Use == "signing" {
				published = append(published, kdCert(kd))
			}
		}
		if len(published) != 1 || !bytes.Equal(published[0], want.DER()) {
			o.Violation = h.V(fmt.Sprintf("published-signing-cert/signRequests:%v", sp.SignAuthnRequests), "metadata variant %d publishes %d signing certificate(s), none / not the one (%v) that verifies this signed %s (SignAuthnRequests=%v)", vi, len(published), want, c.Kind, sp.SignAuthnRequests)
			return o
		}
	}
	f := h.InspectSignature(doc.Root(), want.X509(), dsig.NewFakeClockAt(time.Date(2030, 1, 1, 0, 0, 0, 0, time.UTC)))
	wantCount := 1
	if c.Resign {
		wantCount = 2 // the earlier signature stays where it was, behind the new one, and is covered by the new digest
		o.Classes = append(o.Classes, "re-signed")
	}
	if f.Count != wantCount {
		o.Violation = h.V("signature-count", "%d Signature elements in a signed %s (expected %d)", f.Count, c.Kind, wantCount)
		return o
	}
	if f.Index != 1 || f.PrevTag != "Issuer" {
		o.Violation = h.V("signature-position", "Signature is child #%d after %q; the schema wants it immediately after Issuer", f.Index, f.PrevTag)
		return o
	}
	// a chain store has its whole chain embedded (leaf first); every other configuration exactly the certificate
	wantEmbedded := [][]byte{want.DER()}
	if c.SP.SignerChain() {
		wantEmbedded = append(wantEmbedded, h.ChainIssuer.DER())
		o.Classes = append(o.Classes, "signer-chain")
	}
	if len(f.EmbeddedCerts) != len(wantEmbedded) || !bytes.Equal(f.EmbeddedCerts[0], want.DER()) || !bytes.Equal(f.EmbeddedCerts[len(f.EmbeddedCerts)-1], wantEmbedded[len(wantEmbedded)-1]) {
		o.Violation = h.V(keySig, "embedded certificate is not the expected signing certificate %v (embedded %d certs, expected %d)", want, len(f.EmbeddedCerts), len(wantEmbedded))
		return o
	}
	ec := h.K(want.Key).Kind == "ecdsa"
	wantAlg := c.SP.SignAlg
	if wantAlg == "" {
		wantAlg = dsig.RSASHA256SignatureMethod
		if ec {
			wantAlg = dsig.ECDSASHA256SignatureMethod
		}
	}
	if algFits(c.SP.SignAlg, ec) {
		if f.SigMethod != wantAlg {
			o.Violation = h.V("declared-algorithm", "SignatureMethod %q, configured %q", f.SigMethod, wantAlg)
			return o
		}
	} else {
		// misconfigured algorithm: the library may fall back, but the declared method must be the one used
		// (the crypto verification below runs under the DECLARED method)
		o.Classes = append(o.Classes, "alg:misconfigured")
	}
	wantC14N := c.SP.SignC14N
	if wantC14N == "" {
		wantC14N = string(dsig.CanonicalXML11AlgorithmId)
	}
	if f.C14NMethod != wantC14N || f.TransformC14N != wantC14N {
		o.Violation = h.V("declared-canonicalizer", "CanonicalizationMethod %q / transform %q, configured %q", f.C14NMethod, f.TransformC14N, wantC14N)
		return o
	}
	if id := doc.Root().SelectAttrValue("ID", ""); f.ReferenceURI != "#"+id && f.ReferenceURI != "" {
		o.Violation = h.V("reference-uri", "Reference URI %q does not name the message ID %q", f.ReferenceURI, id)
		return o
	}
	if f.VerifiedCrypto != nil {
		o.Violation = h.V(charSig(keySig), "SignatureValue does not verify over SignedInfo with the expected certificate's key: %v", f.VerifiedCrypto)
		return o
	}
	if f.VerifiedDigest != nil {
		o.Violation = h.V(charSig("digest-does-not-verify-after-reparse"), "Reference digest does not match the re-parsed message: %v", f.VerifiedDigest)
		return o
	}
	// goxmldsig as a second recipient; its own re-parse of canonical bytes cannot handle "]]>" inside
	// attribute values (dependency limitation recorded under C08), which says nothing about the output
	if f.VerifiedDSIG != nil && !strings.Contains(f.VerifiedDSIG.Error(), "unescaped ]]>") {
		o.Violation = h.V(charSig("digest-does-not-verify-after-reparse"), "enveloped signature does not verify after serialisation and re-parsing: %v", f.VerifiedDSIG)
		return o
	}
	// the same certificate is what the metadata publishes as signing key
	md, err := sp.MetadataWithSLO(0)
	if err == nil && md.SPSSODescriptor != nil {
		for _, kd := range md.SPSSODescriptor.KeyDescriptors {
			if kd.Use == "signing" && len(kd.KeyInfo.X509Data.X509Certificates) > 0 {
				if kd.KeyInfo.X509Data.X509Certificates[0].Data != b64(want.DER()) {
					o.Violation = h.V("metadata-signing-cert-differs", "MetadataWithSLO publishes another signing certificate than the one that verifies")
				}
			}
		}
	}
	return o
}

// algFits reports whether a configured SignAuthnRequestsAlgorithm can be applied to the key type ("" = default).
func algFits(alg string, ec bool) bool {
	if alg == "" {
		return true
	}
	list := h.RSAMethods
	if ec {
		list = h.ECMethods
	}
	for _, m := range list {
		if m == alg {
			return true
		}
	}
	return false
}

// ---- C15 -----------------------------------------------------------------------------------------

var idRe = regexp.MustCompile(`^_[0-9a-f]{8}-[0-9a-f]{4}-4[0-9a-f]{3}-[89ab][0-9a-f]{3}-[0-9a-f]{12}$`)

func localNames(e *etree.Element, skipSig bool, out *[]string) {
	if skipSig && e.Tag == "Signature" {
		return
	}
	*out = append(*out, e.Tag)
	for _, c := range e.ChildElements() {
		localNames(c, skipSig, out)
	}
}

func attrMap(e *etree.Element) map[string]string {
	m := map[string]string{}
	for _, a := range e.Attr {
		if a.Space == "xmlns" || (a.Space == "" && a.Key == "xmlns") {
			continue
		}
		k := a.Key
		if a.Space != "" {
			k = a.Space + ":" + a.Key
		}
		if _, dup := m[k]; dup {
			m["!duplicate:"+k] = a.Value
		}
		m[k] = a.Value
	}
	return m
}

func fmtInstant(t time.Time) string {
	u := t.UTC()
	return fmt.Sprintf("%04d-%02d-%02dT%02d:%02d:%02dZ", u.Year(), int(u.Month()), u.Day(), u.Hour(), u.Minute(), u.Second())
}

func checkC15(c OutCase) h.Outcome {
	c.Resign = false // a second signature is C13's business
	o := h.Outcome{Classes: c.classes()}
	cr, aws, interesting := c.charClasses()
	o.NonTrivial = interesting || c.SP.NowOffset != 0 || c.SP.ForceAuthn || c.SP.IsPassive || c.SP.RAC != nil || c.SP.SPIssuer == ""
	charSig := func(base string) string {
		switch {
		case cr && h.Open("C15", "cr-not-preserved-in-output"):
			return "cr-not-preserved-in-output"
		case aws && h.Open("C15", "attr-whitespace-not-preserved-in-output"):
			return "attr-whitespace-not-preserved-in-output"
		}
		return base
	}
	xml, _, err := c.produce()
	if errors.Is(err, errHeldChanged) {
		o.Violation = h.V("held-document-changed/"+c.Kind, "%v", err)
		return o
	}
	if err != nil {
		o.Violation = h.V("build-error", "builder failed: %v", err)
		return o
	}
	doc, err := h.RecipientParse([]byte(xml))
	if err != nil {
		o.Violation = h.V(charSig("output-not-wellformed"), "recipient cannot parse the produced message: %v", err)
		return o
	}
	root := doc.Root()
	sp := c.SP
	wantRoot := map[string]string{"authn-doc": "AuthnRequest", "authn-str": "AuthnRequest", "logout-req": "LogoutRequest", "logout-resp": "LogoutResponse"}[c.Kind]
	if root.Tag != wantRoot || nsOfEl(root) != h.NSProtocol {
		o.Violation = h.V("root-name", "root is {%s}%s, want {protocol}%s", nsOfEl(root), root.Tag, wantRoot)
		return o
	}
	// expected element names (shape only) — the structure-injection check
	issuer := sp.SPIssuer
	if issuer == "" {
		issuer = sp.IdPIssuer
	}
	wantNames := []string{wantRoot, "Issuer"}
	wantAttrs := map[string]string{"Version": "2.0", "IssueInstant": fmtInstant(sp.Now())}
	switch wantRoot {
	case "AuthnRequest":
		wantNames = append(wantNames, "NameIDPolicy")
		if sp.RAC != nil {
			wantNames = append(wantNames, "RequestedAuthnContext")
			for range sp.RAC.Contexts {
				wantNames = append(wantNames, "AuthnContextClassRef")
			}
		}
		wantAttrs["Destination"] = sp.IdPSSO
		wantAttrs["AssertionConsumerServiceURL"] = sp.ACS
		wantAttrs["ProtocolBinding"] = saml2.BindingHttpPost
		if sp.ForceAuthn {
			wantAttrs["ForceAuthn"] = "true"
		}
		if sp.IsPassive {
			wantAttrs["IsPassive"] = "true"
		}
	case "LogoutRequest":
		wantNames = append(wantNames, "NameID", "SessionIndex")
		wantAttrs["Destination"] = sp.IdPSLO
	case "LogoutResponse":
		wantNames = append(wantNames, "Status", "StatusCode")
		wantAttrs["Destination"] = sp.IdPSLO
		wantAttrs["InResponseTo"] = c.ReqID
	}
	var gotNames []string
	localNames(root, true, &gotNames)
	if strings.Join(gotNames, ",") != strings.Join(wantNames, ",") {
		o.Violation = h.V(charSig("structure-differs"), "element sequence %v, want %v (schema order; structure must not depend on string contents)", gotNames, wantNames)
		return o
	}
	// Signature (if any) must be the only extra child and sit right after Issuer: C13 checks position; here: count
	nsig := 0
	for _, e := range root.ChildElements() {
		if e.Tag == "Signature" {
			nsig++
		}
	}
	if (nsig == 1) != c.Signed || nsig > 1 {
		o.Violation = h.V("signature-presence", "%d Signature children, signed=%v", nsig, c.Signed)
		return o
	}
	if c.Signed {
		// schema order: ds:Signature directly after saml:Issuer
		if all := root.ChildElements(); len(all) < 2 || all[0].Tag != "Issuer" || all[1].Tag != "Signature" {
			o.Violation = h.V("schema-order/signature", "children %v: the Signature must directly follow the Issuer", func() []string {
				var n []string
				for _, e := range all {
					n = append(n, e.Tag)
				}
				return n
			}())
			return o
		}
	}
	got := attrMap(root)
	id := got["ID"]
	delete(got, "ID")
	if id == "" {
		o.Violation = h.V("no-id", "message has no ID attribute (its format is checked under C18)")
		return o
	}
	if len(got) != len(wantAttrs) {
		o.Violation = h.V(charSig("root-attributes"), "root attributes %v, want %v", got, wantAttrs)
		return o
	}
	for k, v := range wantAttrs {
		if got[k] != v {
			sig := "root-attribute/" + k
			if k == "IssueInstant" {
				sig = "issue-instant"
			}
			o.Violation = h.V(charSig(sig), "root attribute %s=%q, want %q", k, got[k], v)
			return o
		}
	}
	kids := []*etree.Element{}
	for _, e := range root.ChildElements() {
		if e.Tag != "Signature" {
			kids = append(kids, e)
		}
	}
	textOf := func(e *etree.Element) string {
		var sb strings.Builder
		for _, ch := range e.Child {
			if cd, ok := ch.(*etree.CharData); ok {
				sb.WriteString(cd.Data)
			}
		}
		return sb.String()
	}
	if nsOfEl(kids[0]) != h.NSAssertion || textOf(kids[0]) != issuer {
		o.Violation = h.V(charSig("issuer-value"), "Issuer {%s} %q, want %q", nsOfEl(kids[0]), textOf(kids[0]), issuer)
		return o
	}
	switch wantRoot {
	case "AuthnRequest":
		pol := attrMap(kids[1])
		wantPol := map[string]string{"AllowCreate": "true"}
		if sp.NameIDFormat != "" {
			wantPol["Format"] = sp.NameIDFormat
		}
		if fmt.Sprint(pol) != fmt.Sprint(wantPol) || nsOfEl(kids[1]) != h.NSProtocol {
			o.Violation = h.V(charSig("nameidpolicy"), "NameIDPolicy attributes %v want %v", pol, wantPol)
			return o
		}
		if sp.RAC != nil {
			rac := kids[2]
			if a := attrMap(rac); len(a) != 1 || a["Comparison"] != sp.RAC.Comparison {
				o.Violation = h.V(charSig("rac-comparison"), "RequestedAuthnContext attributes %v want Comparison=%q", a, sp.RAC.Comparison)
				return o
			}
			for i, ce := range rac.ChildElements() {
				if textOf(ce) != sp.RAC.Contexts[i] || nsOfEl(ce) != h.NSAssertion {
					o.Violation = h.V(charSig("rac-context"), "AuthnContextClassRef[%d] %q want %q", i, textOf(ce), sp.RAC.Contexts[i])
					return o
				}
			}
		}
	case "LogoutRequest":
		if textOf(kids[1]) != c.NameID || nsOfEl(kids[1]) != h.NSAssertion {
			o.Violation = h.V(charSig("logout-nameid"), "NameID %q want %q", textOf(kids[1]), c.NameID)
			return o
		}
		if a := attrMap(kids[1]); len(a) != 1 || a["Format"] != sp.NameIDFormat {
			o.Violation = h.V(charSig("logout-nameid-format"), "NameID attributes %v want Format=%q", a, sp.NameIDFormat)
			return o
		}
		if textOf(kids[2]) != c.Session || nsOfEl(kids[2]) != h.NSProtocol {
			o.Violation = h.V(charSig("logout-sessionindex"), "SessionIndex %q want %q", textOf(kids[2]), c.Session)
			return o
		}
	case "LogoutResponse":
		sc := kids[1].ChildElements()[0]
		if a := attrMap(sc); len(a) != 1 || a["Value"] != c.Status {
			o.Violation = h.V(charSig("status-value"), "StatusCode attributes %v want Value=%q", a, c.Status)
			return o
		}
	}
	return o
}

func b64(b []byte) string { return h.Encode(b, h.Presentation{}) }

func TestC13(t *testing.T) {
	h.RunProp(t, "C13", func(t *rapid.T) OutCase {
		c := genOutCase(t, true)
		if rapid.IntRange(0, 11).Draw(t, "failingSigner") == 0 {
			// the key that should sign cannot: the builders may fail, they must not hand out something unsigned
			c.SP.Sig.FailSign, c.SP.Enc.FailSign = true, true
		}
		return c
	}, checkC13)
}
func TestC13_Replay(t *testing.T) { h.RunReplay(t, "C13", checkC13) }
func TestC15(t *testing.T) {
	h.RunProp(t, "C15", func(t *rapid.T) OutCase {
		c := genOutCase(t, false)
		c.Via = rapid.SampledFrom([]string{"", "", "post-body", "redirect-url"}).Draw(t, "via")
		return c
	}, checkC15)
}
func TestC15_Replay(t *testing.T) { h.RunReplay(t, "C15", checkC15) }

// TestC13_Grid: the whole key-configuration matrix (5x5 minus no-key) x 4 kinds with default algorithm.
func TestC13_Grid(t *testing.T) {
	var cases []OutCase
	for _, em := range keyModes {
		for _, sm := range keyModes {
			for _, kind := range []string{"authn-doc", "authn-str", "logout-req", "logout-resp"} {
				for wi, w := range []string{"wide", "wide-nl", "wide-sp", "wide-nul"} {
					if wi > 0 && kind != []string{"authn-doc", "authn-str", "logout-req", "logout-resp"}[(wi+len(em)+len(sm))%4] {
						continue // the odd-byte certificates: one kind per key configuration
					}
					sp := h.BaseSP()
					chain := (wi+len(kind))%2 == 0
					sp.Enc = h.KeyCfg{Mode: em, Field: h.CertRef{Key: "E1", Window: w}, Setter: h.CertRef{Key: "E2", Window: w}, Chain: chain}
					sp.Sig = h.KeyCfg{Mode: sm, Field: h.CertRef{Key: "S1", Window: w}, Setter: h.CertRef{Key: "S2", Window: w}, Chain: chain}
					if _, ok := expectedSigner(sp); !ok {
						continue
					}
					sp.SignRequests = true
					cases = append(cases, OutCase{SP: sp, Kind: kind, Signed: true, NameID: "user@example.com", Session: "_s1", Status: saml2.StatusCodeSuccess, ReqID: "_r1"})
					if wi == 0 {
						// non-default algorithm and canonicaliser, assigned after the key setters ran
						late := sp
						late.SignAlg, late.SignC14N, late.LateSignOptions = dsig.RSASHA512SignatureMethod, h.C14Ns[0], true
						cases = append(cases, OutCase{SP: late, Kind: kind, Signed: true, NameID: "user@example.com", Session: "_s1", Status: saml2.StatusCodeSuccess, ReqID: "_r1"})
					}
				}
			}
		}
	}
	h.RunCases(t, "C13", cases, checkC13)
}
