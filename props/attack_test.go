package props

import (
	"encoding/base64"
	"fmt"
	"strings"

	"github.com/beevik/etree"
	saml2 "github.com/russellhaering/gosaml2"
	"github.com/russellhaering/gosaml2/types"
	"pgregory.net/rapid"

	h "verif/harness"
)

// Shared attacker engine for C01 / C04 / C07 / C10: a pool of genuine messages,
// a generated mutation program, and a provenance oracle that knows exactly what
// the trusted keys signed.

type AttackCase struct {
	SP       h.SPConfig       `json:"sp"`
	Pool     []*h.Genuine     `json:"pool"`
	Logouts  []*h.LogoutIssue `json:"logouts"`
	Base     int              `json:"base"` // index into Pool, or len(Pool)+i for Logouts[i]
	Ops      []h.Op           `json:"ops"`
	Layout   h.Layout         `json:"layout"`
	Pres     h.Presentation   `json:"pres"`
	Encoded  string           `json:"encoded"`
	Notes    []string         `json:"notes"`
	NonAsrtE bool             `json:"nonAssertionEncrypted"`

	spFn func() *saml2.SAMLServiceProvider // not serialised: a long-lived instance for the sequence checks
}

// newSP returns the service provider an entry point is called on: a fresh one unless a sequence check
// installed a long-lived instance.
func (c *AttackCase) newSP() *saml2.SAMLServiceProvider {
	if c.spFn != nil {
		return c.spFn()
	}
	return c.SP.Build()
}

type attackOpts struct {
	skipAllowed bool
	encKey      bool
	logoutBase  bool // prefer logout messages as the working document
	opKinds     []string
	maxOps      int
}

func genAttackCase(t *rapid.T, ao attackOpts) AttackCase {
	txt := h.TextOpts{MaxLen: 3}
	atxt := txt
	atxt.NoCDEnd = true
	sp := h.BaseSP()
	if rapid.IntRange(0, 3).Draw(t, "noIssuer") == 0 {
		sp.IdPIssuer = ""
	}
	// store: generated subset of trusted and unrelated certificates
	all := []h.CertRef{{Key: "T1", Window: "wide"}, {Key: "T2", Window: "wide"}, {Key: "T3", Window: "wide"}, {Key: "U1", Window: "wide"}, {Key: "T1", Window: "wide-ski"}, {Key: "T2", Window: "wide-ski"}}
	sp.Store = nil
	for _, c := range rapid.Permutation(all).Draw(t, "storeOrder") {
		if rapid.IntRange(0, 3).Draw(t, "inStore") != 0 {
			sp.Store = append(sp.Store, c)
		}
	}
	if ao.encKey || rapid.Bool().Draw(t, "encKey") {
		sp.Enc = h.KeyCfg{Mode: "tls", Field: h.CertRef{Key: "E1", Window: "wide"}}
	}
	if ao.skipAllowed && rapid.IntRange(0, 2).Draw(t, "skip") == 0 {
		sp.Skip = true
	}
	c := AttackCase{SP: sp}
	signers := []string{"T1", "T2", "T3"}
	np := rapid.IntRange(1, 3).Draw(t, "poolSize")
	for i := 0; i < np; i++ {
		g := h.GenGenuine(sp, signers, h.ModelOpts{Text: txt, AttrText: atxt, MaxAssert: 2, Embedded: true}, true).Draw(t, "genuine")
		g.Layout, g.Pres = h.Layout{}, h.Presentation{}
		// distinct IDs across the pool
		g.Model.ID.V += fmt.Sprintf("p%d", i)
		for j := range g.Model.Assertions {
			g.Model.Assertions[j].ID.V += fmt.Sprintf("p%d", i)
		}
		c.Pool = append(c.Pool, g)
	}
	nl := rapid.IntRange(0, 2).Draw(t, "logouts")
	if ao.logoutBase && nl == 0 {
		nl = 1
	}
	for i := 0; i < nl; i++ {
		kind := rapid.SampledFrom([]string{"LogoutRequest", "LogoutResponse"}).Draw(t, "logoutKind")
		li := &h.LogoutIssue{Model: h.GenLogoutModel(sp, kind, txt, atxt).Draw(t, "logoutModel"), NS: h.GenNSStyle().Draw(t, "lns")}
		li.Model.ID.V += fmt.Sprintf("l%d", i)
		if rapid.IntRange(0, 3).Draw(t, "logoutSigned") != 0 {
			li.Sig = h.GenSignSpec(signers).Draw(t, "logoutSig")
		}
		c.Logouts = append(c.Logouts, li)
	}
	total := len(c.Pool) + len(c.Logouts)
	c.Base = rapid.IntRange(0, total-1).Draw(t, "base")
	if ao.logoutBase && len(c.Logouts) > 0 && rapid.IntRange(0, 3).Draw(t, "logoutBase") != 0 {
		c.Base = len(c.Pool) + rapid.IntRange(0, len(c.Logouts)-1).Draw(t, "whichLogout")
	}
	kinds := ao.opKinds
	if kinds == nil {
		kinds = h.OpKinds
	}
	max := ao.maxOps
	if max == 0 {
		max = 5
	}
	nops := rapid.IntRange(0, max).Draw(t, "nOps")
	for i := 0; i < nops; i++ {
		op := h.GenOp().Draw(t, "op")
		op.Kind = rapid.SampledFrom(kinds).Draw(t, "opKind")
		c.Ops = append(c.Ops, op)
	}
	c.Layout = h.GenLayout(true).Draw(t, "layout")
	c.Pres = h.GenPresentation().Draw(t, "pres")
	if err := c.build(); err != nil {
		t.Fatalf("harness: %v", err)
	}
	return c
}

// build renders the pool, applies the program and serialises the result.
func (c *AttackCase) build() error {
	ctx := &h.AttackCtx{SP: c.SP}
	var trees []*etree.Element
	for _, g := range c.Pool {
		tr, err := g.Tree()
		if err != nil {
			return err
		}
		trees = append(trees, tr)
		ctx.Pool = append(ctx.Pool, tr)
	}
	for _, l := range c.Logouts {
		tr, err := l.Tree()
		if err != nil {
			return err
		}
		trees = append(trees, tr)
	}
	root := trees[c.Base].Copy()
	for _, op := range c.Ops {
		var perr interface{}
		func() {
			defer func() { perr = recover() }()
			root = ctx.Apply(root, op)
		}()
		if perr != nil {
			return fmt.Errorf("operator %s panicked: %v", op.Kind, perr)
		}
	}
	c.Notes = ctx.Notes
	c.NonAsrtE = ctx.NonAsrtE
	c.Encoded = h.Encode(h.Serialize(root, c.Layout), c.Pres)
	return nil
}

// ---- provenance oracle -------------------------------------------------------------

func (c *AttackCase) specTrusted(s *h.SignSpec) bool {
	if s == nil {
		return false
	}
	// A signature made with key K can be honoured whenever the store holds a currently valid certificate over K:
	// KeyInfo lies outside the signed bytes, so anyone may replace the certificate the IdP embedded by another
	// certificate of the SAME key (or drop it when the store has a single entry). What the IdP signed with a key
	// the store vouches for stays IdP-signed, whatever certificate accompanies it.
	now := c.SP.Now()
	for _, cert := range c.SP.Store {
		if cert.Key != s.Signer.Key {
			continue
		}
		if x := cert.X509(); !now.Before(x.NotBefore) && !now.After(x.NotAfter) {
			return true
		}
	}
	return false
}

type provenance struct {
	own   []h.AssertionView // assertions carrying their own trusted signature
	resps []struct {
		view  h.ResponseView
		asrts []h.AssertionView
	}
	logouts []h.LogoutView // trusted-signed logout messages
}

func (c *AttackCase) provenance() provenance {
	var p provenance
	for _, g := range c.Pool {
		for i := range g.Model.Assertions {
			if sp := g.OwnSig(i); sp != nil && c.specTrusted(sp) {
				p.own = append(p.own, g.Model.Assertions[i].View())
			}
		}
		if g.SignsResponse() && c.specTrusted(g.RespSig) {
			r := struct {
				view  h.ResponseView
				asrts []h.AssertionView
			}{view: g.Model.View()}
			for i := range g.Model.Assertions {
				r.asrts = append(r.asrts, g.Model.Assertions[i].View())
			}
			p.resps = append(p.resps, r)
		}
	}
	for _, l := range c.Logouts {
		if c.specTrusted(l.Sig) {
			p.logouts = append(p.logouts, l.Model.View())
		}
	}
	return p
}

func viewIn(v h.AssertionView, set []h.AssertionView) bool {
	for _, s := range set {
		if h.Diff(s, v) == "" {
			return true
		}
	}
	return false
}

// presented parses what was presented with the harness's own eyes.
func (c *AttackCase) presented() *etree.Element {
	raw, err := base64.StdEncoding.DecodeString(c.Encoded)
	if err != nil {
		return nil
	}
	doc := etree.NewDocument()
	if doc.ReadFromBytes(raw) != nil {
		if inf, err := inflate(raw); err == nil {
			doc = etree.NewDocument()
			if doc.ReadFromBytes(inf) != nil {
				return nil
			}
		} else {
			return nil
		}
	}
	return doc.Root()
}

// hasDsigSignature: does el contain (anywhere) an element {xmldsig}Signature?
func hasDsigSignature(el *etree.Element) bool {
	for _, ch := range el.ChildElements() {
		if (ch.Tag == "Signature" && nsOfEl(ch) == h.NSDsig) || hasDsigSignature(ch) {
			return true
		}
	}
	return false
}

// judgeSSO applies the C01 / C04 oracle to the two SSO entry points.
func (c *AttackCase) judgeSSO(o *h.Outcome) *h.Violation {
	p := c.provenance()
	checkResp := func(entry string, resp *types.Response) *h.Violation {
		if c.SP.Skip {
			if resp.SignatureValidated {
				return h.V("skip-flag-true/response", "%s: Response.SignatureValidated true under SkipSignatureValidation", entry)
			}
			for i := range resp.Assertions {
				if resp.Assertions[i].SignatureValidated {
					return h.V("skip-flag-true/assertion", "%s: assertion %d SignatureValidated true under SkipSignatureValidation", entry, i)
				}
			}
			return nil
		}
		if resp.SignatureValidated {
			rv := h.ViewOfResponse(resp)
			for _, r := range p.resps {
				if h.Diff(r.view, rv) != "" || len(r.asrts) != len(resp.Assertions) {
					continue
				}
				ok := true
				for i := range r.asrts {
					if h.Diff(r.asrts[i], h.ViewOfAssertion(&resp.Assertions[i])) != "" {
						ok = false
					}
				}
				if ok {
					// an assertion flag inside a validated Response still needs the assertion's OWN trusted signature
					for i := range resp.Assertions {
						if resp.Assertions[i].SignatureValidated && !viewIn(h.ViewOfAssertion(&resp.Assertions[i]), p.own) {
							return h.V("assertion-flag-without-own-signature", "%s: assertion %d inside a validated Response is flagged validated although it carries no trusted signature of its own (notes %v)", entry, i, c.Notes)
						}
					}
					return nil
				}
			}
			return h.V("response-flag-without-provenance", "%s: Response reported signature-validated but no trusted-signed Response equals it (ID %q, %d assertions, notes %v)", entry, resp.ID, len(resp.Assertions), c.Notes)
		}
		for i := range resp.Assertions {
			a := &resp.Assertions[i]
			if !viewIn(h.ViewOfAssertion(a), p.own) {
				name := ""
				if a.Subject != nil && a.Subject.NameID != nil {
					name = a.Subject.NameID.Value
				}
				return h.V("unsigned-assertion-accepted", "%s: accepted assertion %d (ID %q, NameID %q) that no trusted key signed individually; Response flag false; notes %v", entry, i, a.ID, name, c.Notes)
			}
			if !a.SignatureValidated {
				return h.V("assertion-flag-false", "%s: Response flag false and assertion %d not marked validated", entry, i)
			}
		}
		// no silent dropping under an unsigned Response
		if root := c.presented(); root != nil {
			na, ne, direct := h.CountAssertionElements(root)
			if !direct {
				return h.V("nested-assertion-ignored", "%s: accepted an unsigned Response although it carries an (Encrypted)Assertion that is not a direct child (notes %v)", entry, c.Notes)
			}
			// every plaintext Assertion element must come back; an EncryptedAssertion contributes one more only
			// if its plaintext is a SAML assertion, which the oracle cannot know for arbitrary (fuzzed, renamed,
			// attacker-encrypted) content — so encrypted ones give an upper bound. Dropping an encrypted
			// assertion that should have been refused is judged by C07's must-reject table.
			// "an unsigned Response is accepted only if every assertion it carries is individually signed": a
			// direct-child Assertion element without any ds:Signature inside it cannot be
			for _, ch := range root.ChildElements() {
				if ch.Tag == "Assertion" && nsOfEl(ch) == h.NSAssertion && !hasDsigSignature(ch) {
					return h.V("unsigned-assertion-carried", "%s: accepted an unsigned Response that carries a direct-child Assertion (ID %q) without any signature (returned %d assertions; notes %v)", entry, ch.SelectAttrValue("ID", ""), len(resp.Assertions), c.Notes)
				}
			}
			if len(resp.Assertions) < na || len(resp.Assertions) > na+ne {
				return h.V("assertion-dropped", "%s: unsigned Response carries %d assertions (+%d encrypted) but %d were returned (notes %v)", entry, na, ne, len(resp.Assertions), c.Notes)
			}
		}
		return nil
	}
	resp, err := c.newSP().ValidateEncodedResponse(c.Encoded)
	if (resp == nil) == (err == nil) {
		return h.V("result-xor-error", "ValidateEncodedResponse returned result nil=%v and err=%v", resp == nil, err)
	}
	if err == nil {
		o.Classes = append(o.Classes, "sso:accepted")
		if v := checkResp("ValidateEncodedResponse", resp); v != nil {
			return v
		}
	} else {
		o.Classes = append(o.Classes, "sso:rejected:"+rejectStage(err))
	}
	info, err2 := c.newSP().RetrieveAssertionInfo(c.Encoded)
	if (info == nil) == (err2 == nil) {
		return h.V("result-xor-error", "RetrieveAssertionInfo returned result nil=%v and err=%v", info == nil, err2)
	}
	if err2 == nil {
		if err != nil {
			return h.V("entry-points-disagree", "RetrieveAssertionInfo accepted what ValidateEncodedResponse rejected (%v)", err)
		}
		fake := &types.Response{Assertions: info.Assertions, SignatureValidated: info.ResponseSignatureValidated}
		fake.ID, fake.InResponseTo, fake.Destination, fake.Version, fake.IssueInstant, fake.Issuer, fake.Status = resp.ID, resp.InResponseTo, resp.Destination, resp.Version, resp.IssueInstant, resp.Issuer, resp.Status
		if info.ResponseSignatureValidated != resp.SignatureValidated {
			return h.V("summary-flag-mismatch", "AssertionInfo.ResponseSignatureValidated=%v but Response.SignatureValidated=%v", info.ResponseSignatureValidated, resp.SignatureValidated)
		}
		if v := checkResp("RetrieveAssertionInfo", fake); v != nil {
			return v
		}
		// the summary fields are the projection of the first returned assertion
		if len(info.Assertions) == 0 {
			return h.V("info-without-assertion", "RetrieveAssertionInfo succeeded with no assertion")
		}
		f := h.ViewOfAssertion(&info.Assertions[0])
		if info.NameID != f.NameID || info.SessionIndex != f.SessionIndex {
			return h.V("info-not-projection", "AssertionInfo NameID/SessionIndex (%q,%q) are not those of the first returned assertion (%q,%q)", info.NameID, info.SessionIndex, f.NameID, f.SessionIndex)
		}
		nameCount := map[string]int{}
		for _, at := range f.Attrs {
			nameCount[at.Name]++
		}
		for _, at := range f.Attrs {
			// Values is keyed by Name: with a repeated Name only one of the attributes can be reported
			if nameCount[at.Name] == 1 && len(at.Values) > 0 && info.Values.Get(at.Name) == "" && at.Values[0] != "" {
				return h.V("info-not-projection", "Values.Get(%q) empty but the first assertion has it", at.Name)
			}
		}
		for name, at := range info.Values {
			found := false
			for _, fa := range f.Attrs {
				if fa.Name == name {
					vals := []string{}
					for _, v := range at.Values {
						vals = append(vals, v.Value)
					}
					if strings.Join(vals, "\x00") == strings.Join(fa.Values, "\x00") {
						found = true
					}
				}
			}
			if !found {
				return h.V("info-foreign-attribute", "AssertionInfo.Values[%q] does not come from the first returned assertion", name)
			}
		}
	}
	return nil
}

// judgeLogout applies the C10 / C04 oracle for the final document presented to the logout validators.
func (c *AttackCase) judgeLogout(o *h.Outcome) *h.Violation {
	p := c.provenance()
	root := c.presented()
	rootKind := ""
	if root != nil {
		rootKind = root.Tag
		if nsOfEl(root) != h.NSProtocol {
			rootKind = "{other}" + rootKind
		}
	}
	match := func(v h.LogoutView) bool {
		for _, l := range p.logouts {
			if l.Kind != v.Kind {
				continue
			}
			// compare the fields the property lists: ID, InResponseTo, Issuer, NameID, Destination
			if l.ID == v.ID && l.InResponseTo == v.InResponseTo && l.HasIssuer == v.HasIssuer && l.Issuer == v.Issuer && l.Destination == v.Destination && l.HasNameID == v.HasNameID && l.NameID == v.NameID && l.Version == v.Version {
				return true
			}
		}
		return false
	}
	req, err := c.newSP().ValidateEncodedLogoutRequestPOST(c.Encoded)
	if (req == nil) == (err == nil) {
		return h.V("result-xor-error", "ValidateEncodedLogoutRequestPOST result nil=%v err=%v", req == nil, err)
	}
	if err == nil {
		o.Classes = append(o.Classes, "logoutreq:accepted")
		if rootKind != "LogoutRequest" {
			return h.V("type-confusion/logout-request", "a document whose root is %q was accepted as LogoutRequest", rootKind)
		}
		v := h.LogoutView{Kind: "LogoutRequest", ID: req.ID, Destination: req.Destination, Version: req.Version}
		if req.Issuer != nil {
			v.HasIssuer, v.Issuer = true, req.Issuer.Value
		}
		if req.NameID != nil {
			v.HasNameID, v.NameID = true, req.NameID.Value
		}
		if c.SP.Skip && req.SignatureValidated {
			return h.V("skip-flag-true/logout-request", "LogoutRequest flag true under skip")
		}
		if req.SignatureValidated && !match(v) {
			return h.V("logout-flag-without-provenance/request", "LogoutRequest reported validated but no trusted-signed request equals it: %+v notes %v", v, c.Notes)
		}
	}
	lr, err := c.newSP().ValidateEncodedLogoutResponsePOST(c.Encoded)
	if (lr == nil) == (err == nil) {
		return h.V("result-xor-error", "ValidateEncodedLogoutResponsePOST result nil=%v err=%v", lr == nil, err)
	}
	if err == nil {
		o.Classes = append(o.Classes, "logoutresp:accepted")
		if rootKind != "LogoutResponse" {
			return h.V("type-confusion/logout-response", "a document whose root is %q was accepted as LogoutResponse", rootKind)
		}
		v := h.ViewOfLogoutResponse(lr)
		if c.SP.Skip && lr.SignatureValidated {
			return h.V("skip-flag-true/logout-response", "LogoutResponse flag true under skip")
		}
		if lr.SignatureValidated && !match(v) {
			return h.V("logout-flag-without-provenance/response", "LogoutResponse reported validated but no trusted-signed response equals it: %+v notes %v", v, c.Notes)
		}
	}
	return nil
}

func nsOfEl(e *etree.Element) string {
	for p := e; p != nil; p = p.Parent() {
		for _, a := range p.Attr {
			if e.Space == "" && a.Space == "" && a.Key == "xmlns" {
				return a.Value
			}
			if e.Space != "" && a.Space == "xmlns" && a.Key == e.Space {
				return a.Value
			}
		}
	}
	return ""
}

func rejectStage(err error) string {
	if v, ok := err.(saml2.ErrVerification); ok {
		err = v.Cause
	}
	switch err.(type) {
	case saml2.ErrMissingElement, saml2.ErrInvalidValue, saml2.ErrParsing:
		return "profile"
	}
	s := err.Error()
	switch {
	case strings.Contains(s, "ignature") || strings.Contains(s, "ertificate") || strings.Contains(s, "Cert") || strings.Contains(s, "x509") || strings.Contains(s, "reference") || strings.Contains(s, "Transform") || strings.Contains(s, "digest"):
		return "signature"
	case strings.Contains(s, "unexpected parent"):
		return "parent"
	case strings.Contains(s, "decrypt") || strings.Contains(s, "cipher"):
		return "decrypt"
	case strings.Contains(s, "XML") || strings.Contains(s, "xml") || strings.Contains(s, "flate") || strings.Contains(s, "roundtrip") || strings.Contains(s, "validator"):
		return "parse"
	case strings.Contains(s, "unmarshal") || strings.Contains(s, "expected element"):
		return "unmarshal"
	}
	return "other"
}

func (c *AttackCase) classes(o *h.Outcome) {
	structural := false
	for _, op := range c.Ops {
		o.Classes = append(o.Classes, "op:"+op.Kind)
		switch op.Kind {
		case "edit-text", "edit-attr", "add-attr":
		default:
			structural = true
		}
	}
	base := "sso"
	if c.Base >= len(c.Pool) {
		base = "logout"
	} else {
		base = "sso/" + c.Pool[c.Base].Placement
		if len(c.Pool[c.Base].Enc) > 0 {
			base += "/enc"
		}
	}
	o.Classes = append(o.Classes, "base:"+base, fmt.Sprintf("skip:%v", c.SP.Skip), fmt.Sprintf("store:%d", len(c.SP.Store)))
	o.NonTrivial = structural && c.presented() != nil
	o.Classes = dedup(o.Classes)
}
