package props

import (
	"bytes"
	"crypto/rand"
	"encoding/binary"
	"encoding/hex"
	"fmt"
	"io"
	"sync"
	"testing"

	"github.com/beevik/etree"
	saml2 "github.com/russellhaering/gosaml2"
	"github.com/russellhaering/gosaml2/uuid"
	"pgregory.net/rapid"

	h "verif/harness"
)

// C18 — message identifiers are unique, unpredictable and valid XML IDs.

type C18Case struct {
	Blocks [][]byte `json:"blocks"` // 16 bytes each, replayed through crypto/rand.Reader
	Kinds  []int    `json:"kinds"`  // per block: 0 uuid.NewV4, 1 AuthnRequest, 2 LogoutRequest, 3 LogoutResponse
	SPs    int      `json:"sps"`
	Chunk  int      `json:"chunk"` // the substituted reader returns at most this many bytes per Read (0 = unlimited)
	Cfg    int      `json:"cfg"`   // configuration variant of the first service provider (the others follow on)
}

// c18SP: service provider configurations that change the SHAPE of the built messages (number of root
// attributes and children): every optional setting on / off in the combinations of a 5-bit counter.
func c18SP(i int) *saml2.SAMLServiceProvider {
	c := h.BaseSP()
	c.ForceAuthn = i&1 != 0
	c.IsPassive = i&2 != 0
	if i&4 != 0 {
		c.RAC = &h.RAC{Comparison: "exact", Contexts: []string{"urn:a", "urn:b"}}
	}
	if i&8 != 0 {
		c.NameIDFormat = saml2.NameIdFormatPersistent
	}
	if i&16 != 0 {
		c.SPIssuer, c.SLO = "", ""
	}
	return c.Build()
}

type replayReader struct {
	data  []byte
	off   int
	over  bool
	chunk int
}

func (r *replayReader) Read(p []byte) (int, error) {
	if r.chunk > 0 && len(p) > r.chunk && r.off < len(r.data) {
		// a short read: perfectly legal for an io.Reader; callers must loop (io.ReadFull / rand.Read do)
		n := copy(p[:r.chunk], r.data[r.off:])
		r.off += n
		return n, nil
	}
	n := copy(p, r.data[r.off:])
	r.off += n
	if n < len(p) {
		r.over = true
		for i := n; i < len(p); i++ {
			p[i] = 0xEE
		}
	}
	return len(p), nil
}

var randMu sync.Mutex

func idOf(kind int, sp *saml2.SAMLServiceProvider) (string, error) {
	var doc *etree.Document
	var err error
	switch kind {
	case 0:
		return "_" + uuid.NewV4().String(), nil
	case 1:
		doc, err = sp.BuildAuthRequestDocumentNoSig()
	case 2:
		doc, err = sp.BuildLogoutRequestDocumentNoSig("n", "s")
	default:
		doc, err = sp.BuildLogoutResponseDocumentNoSig("st", "r")
	}
	if err != nil {
		return "", err
	}
	return doc.Root().SelectAttrValue("ID", ""), nil
}

func expectID(b []byte) string {
	u := append([]byte{}, b...)
	u[6] = (u[6] & 0x0f) | 0x40
	u[8] = (u[8] & 0x3f) | 0x80
	hx := hex.EncodeToString(u)
	return "_" + hx[0:8] + "-" + hx[8:12] + "-" + hx[12:16] + "-" + hx[16:20] + "-" + hx[20:32]
}

func genC18(t *rapid.T) C18Case {
	n := rapid.IntRange(1, 40).Draw(t, "n")
	c := C18Case{SPs: rapid.IntRange(1, 3).Draw(t, "sps"), Chunk: rapid.SampledFrom([]int{0, 0, 1, 5, 7, 15}).Draw(t, "chunk"), Cfg: rapid.IntRange(0, 31).Draw(t, "cfg")}
	for i := 0; i < n; i++ {
		var b []byte
		switch rapid.IntRange(0, 3).Draw(t, "blockKind") {
		case 0:
			b = bytes.Repeat([]byte{rapid.SampledFrom([]byte{0x00, 0xff, 0x0f, 0xf0, 0xaa}).Draw(t, "fill")}, 16)
		default:
			b = rapid.SliceOfN(rapid.Byte(), 16, 16).Draw(t, "block")
		}
		c.Blocks = append(c.Blocks, b)
		c.Kinds = append(c.Kinds, rapid.IntRange(0, 3).Draw(t, "kind"))
	}
	return c
}

// checkC18 — source differential: with crypto/rand.Reader replaying known bytes, every ID must be
// exactly those bytes with only version and variant forced, 16 bytes consumed per ID.
func checkC18(c C18Case) h.Outcome {
	o := h.Outcome{NonTrivial: len(c.Blocks) >= 2, Classes: []string{fmt.Sprintf("sps:%d", c.SPs), fmt.Sprintf("shortReads:%d", c.Chunk)}}
	var all []byte
	for _, b := range c.Blocks {
		all = append(all, b...)
	}
	sps := make([]*saml2.SAMLServiceProvider, c.SPs)
	for i := range sps {
		sps[i] = c18SP(c.Cfg + 7*i)
	}
	o.Classes = append(o.Classes, fmt.Sprintf("cfg:%d", c.Cfg%32))
	randMu.Lock()
	old := rand.Reader
	rr := &replayReader{data: all, chunk: c.Chunk}
	rand.Reader = rr
	var ids []string
	var errs []error
	func() {
		defer func() { rand.Reader = old; randMu.Unlock() }()
		for i := range c.Blocks {
			id, err := idOf(c.Kinds[i], sps[i%len(sps)])
			ids = append(ids, id)
			errs = append(errs, err)
		}
	}()
	seen := map[string]int{}
	for i, id := range ids {
		o.Classes = append(o.Classes, fmt.Sprintf("kind:%d", c.Kinds[i]))
		if errs[i] != nil {
			o.Violation = h.V("build-error", "%v", errs[i])
			return o
		}
		if !idRe.MatchString(id) {
			o.Violation = h.V("id-format", "ID %q (kind %d) is not '_' + canonical lowercase UUID version 4 variant 1", id, c.Kinds[i])
			return o
		}
		if want := expectID(c.Blocks[i]); id != want {
			o.Violation = h.V("id-not-from-crypto-rand", "ID %q but crypto/rand.Reader supplied %x (expected %q): the free bits do not come from the reader, or not 16 bytes per ID", id, c.Blocks[i], want)
			return o
		}
		if j, dup := seen[id]; dup && !bytes.Equal(c.Blocks[i], c.Blocks[j]) {
			// equal blocks legitimately give equal IDs here; masked bits may also coincide: compare the free bits
			if expectID(c.Blocks[i]) != expectID(c.Blocks[j]) {
				o.Violation = h.V("id-repeat", "ID %q repeated for different random input", id)
				return o
			}
		}
		seen[id] = i
	}
	if rr.off < len(all) {
		// reading ahead (a buffered generator) is fine; consuming LESS than 16 fresh bytes per ID is not
		o.Violation = h.V("id-randomness-consumption", "consumed only %d bytes of crypto/rand for %d IDs", rr.off, len(ids))
	}
	o.Classes = dedup(o.Classes)
	return o
}

func TestC18(t *testing.T) { h.RunProp(t, "C18", genC18, checkC18) }
func TestC18_Replay(t *testing.T) {
	h.RunReplay(t, "C18", checkC18)
	h.RunReplay(t, "C18.signed", checkC18Signed)
}

// C18Mass — uniqueness and format over long mixed sequences with the real random source,
// sequentially and from 16 goroutines, across several SP instances.
type C18Mass struct {
	N          int `json:"n"`
	Goroutines int `json:"goroutines"`
	SPs        int `json:"sps"`
	Offset     int `json:"offset"`
}

func checkC18Mass(c C18Mass) h.Outcome {
	o := h.Outcome{NonTrivial: true, Classes: []string{fmt.Sprintf("goroutines:%d", c.Goroutines), fmt.Sprintf("n:%d", c.N)}}
	sps := make([]*saml2.SAMLServiceProvider, c.SPs)
	for i := range sps {
		sps[i] = c18SP(c.Offset + 5*i)
	}
	randMu.Lock() // nobody substitutes the reader while we draw real randomness
	defer randMu.Unlock()
	out := make([][]string, c.Goroutines)
	var wg sync.WaitGroup
	for g := 0; g < c.Goroutines; g++ {
		wg.Add(1)
		go func(g int) {
			defer wg.Done()
			for i := 0; i < c.N/c.Goroutines; i++ {
				id, err := idOf((i+g+c.Offset)%4, sps[(i+g)%len(sps)])
				if err != nil {
					id = "!error: " + err.Error()
				}
				out[g] = append(out[g], id)
			}
		}(g)
	}
	wg.Wait()
	seen := make(map[string]struct{}, c.N)
	ones := make([]int, 128)
	total := 0
	for _, l := range out {
		for _, id := range l {
			if !idRe.MatchString(id) {
				o.Violation = h.V("id-format", "ID %q", id)
				return o
			}
			if _, dup := seen[id]; dup {
				o.Violation = h.V("id-repeat", "ID %q generated twice within %d constructions", id, c.N)
				return o
			}
			seen[id] = struct{}{}
			raw, _ := hex.DecodeString(id[1:9] + id[10:14] + id[15:19] + id[20:24] + id[25:])
			for bit := 0; bit < 128; bit++ {
				if raw[bit/8]&(0x80>>(bit%8)) != 0 {
					ones[bit]++
				}
			}
			total++
		}
	}
	// supporting evidence only: no free bit is stuck (6 sigma); the 6 fixed bits are excluded
	if total >= 10000 {
		for bit := 0; bit < 128; bit++ {
			if (bit >= 48 && bit < 52) || bit == 64 || bit == 65 {
				continue
			}
			p := float64(ones[bit]) / float64(total)
			sigma := 0.5 / sqrtf(float64(total))
			if p < 0.5-6*sigma || p > 0.5+6*sigma {
				o.Violation = h.V("id-bit-bias", "bit %d is set in %.4f of %d IDs", bit, p, total)
				return o
			}
		}
	}
	return o
}

func sqrtf(x float64) float64 {
	z := x / 2
	for i := 0; i < 60; i++ {
		z = (z + x/z) / 2
	}
	return z
}

// TestC18_GridRelated: CONSECUTIVE identifiers whose 16 random bytes are related: same high half, same low half,
// same xor / sum of the halves, or equal under "hi*K op lo" / "lo*K op hi" for every large integer constant K found
// in the library's sources (what a cheap fingerprint of a UUID looks like). Related is not equal: every identifier
// is still exactly the bytes that were drawn.
func TestC18_GridRelated(t *testing.T) {
	be := binary.BigEndian
	fix := func(b []byte) []byte { // what NewV4 makes of 16 random bytes
		u := append([]byte{}, b...)
		u[6] = (u[6] & 0x0f) | 0x40
		u[8] = (u[8] & 0x3f) | 0x80
		return u
	}
	u1 := fix([]byte{0x3b, 0x1f, 0x6e, 0x92, 0xc4, 0x07, 0x4a, 0xd1, 0x9c, 0x55, 0xe0, 0x13, 0x7a, 0x28, 0xbd, 0x46})
	hi1, lo1 := be.Uint64(u1[:8]), be.Uint64(u1[8:])
	type rel struct {
		name string
		lo2  func(hi2 uint64) uint64
	}
	rels := []rel{
		{"same-lo", func(uint64) uint64 { return lo1 }},
		{"xor-fold", func(hi2 uint64) uint64 { return hi1 ^ lo1 ^ hi2 }},
		{"sum-fold", func(hi2 uint64) uint64 { return hi1 + lo1 - hi2 }},
	}
	for _, k := range append([]uint64{31, 33, 0x9e3779b9, 1099511628211}, h.CodeInts()...) {
		k := k
		rels = append(rels,
			rel{fmt.Sprintf("hi*%#x^lo", k), func(hi2 uint64) uint64 { return hi1*k ^ lo1 ^ hi2*k }},
			rel{fmt.Sprintf("hi*%#x+lo", k), func(hi2 uint64) uint64 { return hi1*k + lo1 - hi2*k }})
	}
	var cases []C18Case
	for ri, r := range rels {
		// find a second value (valid version / variant bits) in the relation, different from the first
		for try := uint64(1); try < 4096; try++ {
			hi2 := (hi1+try*0x0001000000010001)&^0xf000 | 0x4000
			lo2 := r.lo2(hi2)
			if lo2>>62 != 2 || (hi2 == hi1 && lo2 == lo1) {
				continue
			}
			u2 := make([]byte, 16)
			be.PutUint64(u2[:8], hi2)
			be.PutUint64(u2[8:], lo2)
			for kind := 0; kind < 4; kind++ {
				cases = append(cases, C18Case{SPs: 1 + ri%2, Cfg: ri, Blocks: [][]byte{u1, u2, u1, u2}, Kinds: []int{kind, (kind + 1) % 4, kind, kind}})
			}
			break
		}
	}
	// same high half: only the low half differs
	u3 := append([]byte{}, u1...)
	u3[15] ^= 1
	cases = append(cases, C18Case{SPs: 1, Blocks: [][]byte{u1, u3, u1}, Kinds: []int{1, 2, 3}})
	h.RunCases(t, "C18", cases, checkC18Related)
}

// checkC18Related is checkC18 without the "identifier repeats" rule for blocks that were deliberately repeated.
func checkC18Related(c C18Case) h.Outcome {
	o := checkC18(c)
	if o.Violation != nil && o.Violation.Sig == "id-repeat" {
		// the case replays the same 16 bytes on purpose: equal bytes give equal identifiers
		o.Violation = nil
	}
	return o
}

// TestC18_GridConfigs: every combination of the optional settings x every message kind, twice each.
func TestC18_GridConfigs(t *testing.T) {
	var cases []C18Case
	for cfg := 0; cfg < 32; cfg++ {
		c := C18Case{SPs: 1, Cfg: cfg, Kinds: []int{1, 2, 3, 1, 2, 3, 0}}
		for k := range c.Kinds {
			b := make([]byte, 16)
			for j := range b {
				b[j] = byte(cfg*31 + k*17 + j*7 + 1)
			}
			c.Blocks = append(c.Blocks, b)
		}
		cases = append(cases, c)
	}
	h.RunCases(t, "C18", cases, checkC18)
}

// C18Signed: SIGNED builds (real randomness; signing itself consumes random bytes, so no replay differential) on
// a service provider whose exported, cached signing context was customised by the application the way
// goxmldsig allows (IdAttribute, Prefix): the message identifier is still the unqualified ID attribute.
type C18Signed struct {
	IdAttr string `json:"idAttr"`
	Prefix string `json:"prefix"`
	Cfg    int    `json:"cfg"`
}

func checkC18Signed(c C18Signed) h.Outcome {
	o := h.Outcome{NonTrivial: true, Classes: []string{"signed", "idAttr:" + c.IdAttr, "prefix:" + c.Prefix}}
	cfg := h.BaseSP()
	cfg.Enc = h.KeyCfg{Mode: "tls", Field: h.CertRef{Key: "E1", Window: "wide"}}
	cfg.SignRequests = true
	cfg.ForceAuthn, cfg.IsPassive = c.Cfg&1 != 0, c.Cfg&2 != 0
	sp := cfg.Build()
	randMu.Lock()
	defer randMu.Unlock()
	ctx := sp.SigningContext()
	if ctx == nil {
		o.Violation = h.V("no-signing-context", "SigningContext() is nil with a key configured")
		return o
	}
	if c.IdAttr != "" {
		ctx.IdAttribute = c.IdAttr
	}
	if c.Prefix != "" {
		ctx.Prefix = c.Prefix
	}
	seen := map[string]bool{}
	for round := 0; round < 2; round++ {
		for kind, build := range []func() (*etree.Document, error){
			sp.BuildAuthRequestDocument,
			func() (*etree.Document, error) { return sp.BuildLogoutRequestDocument("n", "s") },
			func() (*etree.Document, error) { return sp.BuildLogoutResponseDocument("st", "r") },
		} {
			doc, err := build()
			if err != nil {
				o.Violation = h.V("build-error", "kind %d: %v", kind, err)
				return o
			}
			n := 0
			for _, a := range doc.Root().Attr {
				if a.Key == "ID" && a.Space == "" {
					n++
				}
			}
			id := doc.Root().SelectAttrValue("ID", "")
			if n != 1 || !idRe.MatchString(id) {
				o.Violation = h.V("id-format", "signed message kind %d carries %d unqualified ID attributes, value %q (signing context IdAttribute %q)", kind, n, id, c.IdAttr)
				return o
			}
			if seen[id] {
				o.Violation = h.V("id-repeat", "ID %q repeated", id)
				return o
			}
			seen[id] = true
		}
	}
	return o
}

func TestC18_GridSigned(t *testing.T) {
	var cases []C18Signed
	for i, ia := range []string{"", "Id", "id", "AssertionID", "xml:id", "ID"} {
		for j, pf := range []string{"", "dsig"} {
			cases = append(cases, C18Signed{IdAttr: ia, Prefix: pf, Cfg: i + j})
		}
	}
	h.RunCases(t, "C18.signed", cases, checkC18Signed)
}

func TestC18_GridMass(t *testing.T) {
	n := 20000
	if h.Thorough() {
		n = 400000
	}
	var cases []C18Mass
	cases = append(cases, C18Mass{N: n, Goroutines: 1, SPs: 1, Offset: h.Shard()}, C18Mass{N: n, Goroutines: 16, SPs: 3, Offset: 1}, C18Mass{N: n, Goroutines: 4, SPs: 2, Offset: 2})
	h.RunCases(t, "C18.mass", cases, checkC18Mass)
}

var _ = io.EOF

// C18Bare — the UUID generator itself, hammered from many goroutines in tight loops (no message building in
// between, so that calls overlap as much as possible): every value well-formed, no value handed out twice.
type C18Bare struct {
	Goroutines int `json:"goroutines"`
	PerG       int `json:"perGoroutine"`
}

func checkC18Bare(c C18Bare) h.Outcome {
	o := h.Outcome{NonTrivial: true, Classes: []string{fmt.Sprintf("bare:goroutines:%d", c.Goroutines), fmt.Sprintf("bare:ids:%d", c.Goroutines*c.PerG)}}
	randMu.Lock()
	defer randMu.Unlock()
	out := make([][][16]byte, c.Goroutines)
	start := make(chan struct{})
	var wg sync.WaitGroup
	for g := 0; g < c.Goroutines; g++ {
		wg.Add(1)
		go func(g int) {
			defer wg.Done()
			buf := make([][16]byte, 0, c.PerG)
			<-start
			for i := 0; i < c.PerG; i++ {
				buf = append(buf, [16]byte(*uuid.NewV4()))
			}
			out[g] = buf
		}(g)
	}
	close(start)
	wg.Wait()
	seen := make(map[[16]byte]struct{}, c.Goroutines*c.PerG)
	for _, l := range out {
		for _, u := range l {
			if u[6]&0xf0 != 0x40 || u[8]&0xc0 != 0x80 {
				o.Violation = h.V("id-format", "UUID %x is not version 4 / variant 1", u)
				return o
			}
			if _, dup := seen[u]; dup {
				o.Violation = h.V("id-repeat", "UUID %x handed out twice among %d values drawn by %d goroutines", u, c.Goroutines*c.PerG, c.Goroutines)
				return o
			}
			seen[u] = struct{}{}
		}
	}
	return o
}

func TestC18_GridBare(t *testing.T) {
	per := 100000
	if h.Thorough() {
		per = 400000
	}
	h.RunCases(t, "C18.bare", []C18Bare{{Goroutines: 16, PerG: per}, {Goroutines: 2, PerG: per}, {Goroutines: 64, PerG: per / 8}}, checkC18Bare)
}
