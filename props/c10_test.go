package props

import (
	"fmt"
	"strings"
	"testing"

	"github.com/beevik/etree"
	saml2 "github.com/russellhaering/gosaml2"
	"github.com/russellhaering/gosaml2/types"
	dsig "github.com/russellhaering/goxmldsig"
	"pgregory.net/rapid"

	h "verif/harness"
)

// C10 — logout messages: addressing, issuer, version, status checked; honest signed flag.

type C10Case struct {
	SP       h.SPConfig     `json:"sp"`
	Issue    *h.LogoutIssue `json:"issue"`
	SigState string         `json:"sigState"` // unsigned | trusted | untrusted | tampered | wrapped | wrapped-collide | relocated
	Faults   []Fault        `json:"faults"`
	Expect   []ErrSpec      `json:"expect"`
	Present  string         `json:"present"` // "", "as-other-logout", "as-sso" (kind confusion)
	Encoded  string         `json:"encoded"`
}

var logoutFaults = map[string][]string{
	"version":     {"absent", "1.1", "2.00", " 2.0", "", "2", "02.0", "+2.0", "2e0", "2.0 ", "2.0.0", "0x1p1"},
	"destination": append(append([]string{"wrong", "slash", "case", "space", "lspace", "acs", "idp-slo"}, cfgVariants...), urlVariants...),
	"issuer":      append(append([]string{"absent", "wrong", "slash", "case", "space", "empty"}, cfgVariants...), urlVariants...),
	"status":      {"absent"},
	"statuscode":  {"absent", "Requester", "success-case", "empty", "valueabsent", "PartialLogout", "nested-success", "nested-success-deep", "success-space", "Requester+message", "PartialLogout+message", "valueabsent+message"},
}

func applyLogoutFault(m *h.LogoutModel, sp h.SPConfig, f Fault) (ErrSpec, bool) {
	switch f.Kind {
	case "version":
		if f.Variant == "absent" {
			m.Version = h.None
		} else {
			m.Version = h.S(f.Variant)
		}
		return ErrSpec{Type: "ErrInvalidValue", Key: "SAML version", Reason: saml2.ReasonUnsupported}, true
	case "destination":
		v := wrongValue(sp, sp.SLO, f.Variant)
		switch f.Variant {
		case "acs": // the SP's OTHER endpoint is not its single-logout URL
			v = sp.ACS
		case "idp-slo":
			v = sp.IdPSLO
		}
		if v == sp.SLO || v == "" {
			return ErrSpec{}, false
		}
		m.Destination = h.S(v)
		return ErrSpec{Type: "ErrInvalidValue", Key: "Destination"}, true
	case "issuer":
		if f.Variant == "absent" {
			m.Issuer = h.None
			return ErrSpec{Type: "ErrMissingElement", Tag: "Issuer"}, true
		}
		if sp.IdPIssuer == "" {
			return ErrSpec{}, false
		}
		v := wrongValue(sp, sp.IdPIssuer, f.Variant)
		if v == sp.IdPIssuer {
			return ErrSpec{}, false
		}
		m.Issuer = h.S(v)
		return ErrSpec{Type: "ErrInvalidValue", Key: "Issuer"}, true
	}
	if m.Kind != "LogoutResponse" {
		return ErrSpec{}, false
	}
	switch f.Kind {
	case "status":
		m.HasStatus = false
		return ErrSpec{Type: "ErrMissingElement", Tag: "Status"}, true
	case "statuscode":
		if strings.HasSuffix(f.Variant, "+message") {
			// the IdP explains itself (StatusMessage): the rejection still names the StatusCode through the typed error
			m.StatusMsg = h.S("The request could not be performed: the principal is unknown.")
			f.Variant = strings.TrimSuffix(f.Variant, "+message")
		}
		switch f.Variant {
		case "absent":
			m.HasCode = false
			return ErrSpec{Type: "ErrMissingElement", Tag: "StatusCode"}, true
		case "Requester":
			m.StatusCode = h.S("urn:oasis:names:tc:SAML:2.0:status:Requester")
		case "PartialLogout":
			m.StatusCode = h.S(saml2.StatusCodePartialLogout)
		case "success-case":
			m.StatusCode = h.S("urn:oasis:names:tc:SAML:2.0:status:SUCCESS")
		case "empty":
			m.StatusCode = h.S("")
		case "valueabsent":
			m.StatusCode = h.None
		case "nested-success":
			m.StatusCode = h.S("urn:oasis:names:tc:SAML:2.0:status:Responder")
			m.SubCodes = []string{h.StatusSuccess}
		case "nested-success-deep":
			m.StatusCode = h.S("urn:oasis:names:tc:SAML:2.0:status:Requester")
			m.SubCodes = []string{"urn:oasis:names:tc:SAML:2.0:status:RequestDenied", h.StatusSuccess}
		case "success-space":
			m.StatusCode = h.S(h.StatusSuccess + " ")
		}
		return ErrSpec{Type: "ErrInvalidValue", Key: "StatusCode"}, true
	}
	return ErrSpec{}, false
}

func logoutValid(m *h.LogoutModel, sp h.SPConfig) bool {
	if m.Version.Str() != "2.0" {
		return false
	}
	if d := m.Destination.Str(); d != "" && d != sp.SLO {
		return false
	}
	if !m.Issuer.Set || (sp.IdPIssuer != "" && m.Issuer.V != sp.IdPIssuer) {
		return false
	}
	if m.Kind == "LogoutResponse" && (!m.HasStatus || !m.HasCode || m.StatusCode.Str() != h.StatusSuccess) {
		return false
	}
	return true
}

func genC10(t *rapid.T) C10Case {
	txt := h.TextOpts{MaxLen: 4}
	atxt := txt
	atxt.NoCDEnd = true
	sp := h.BaseSP()
	switch rapid.IntRange(0, 5).Draw(t, "sloKind") {
	case 0, 1, 2:
		o := atxt
		o.NonEmpt = true
		sp.SLO = h.GenText(o).Draw(t, "slo")
	case 3:
		sp.SLO = "" // no single-logout URL configured: only an empty Destination is acceptable
	}
	if rapid.IntRange(0, 2).Draw(t, "noIssuer") == 0 {
		sp.IdPIssuer = ""
	} else if rapid.Bool().Draw(t, "hostileIssuer") {
		o := txt
		o.NonEmpt = true
		sp.IdPIssuer = h.GenText(o).Draw(t, "idpIssuer")
	}
	sp.Skip = rapid.IntRange(0, 2).Draw(t, "skip") == 0
	store, signers := trustedStore(t)
	sp.Store = store
	kind := rapid.SampledFrom([]string{"LogoutRequest", "LogoutResponse"}).Draw(t, "kind")
	li := &h.LogoutIssue{Model: h.GenLogoutModel(sp, kind, txt, atxt).Draw(t, "model"), NS: h.GenNSStyle().Draw(t, "ns")}
	c := C10Case{SP: sp, Issue: li}
	c.SigState = rapid.SampledFrom([]string{"unsigned", "trusted", "trusted", "untrusted", "tampered", "wrapped", "wrapped-collide", "relocated"}).Draw(t, "sigState")
	k := rapid.SampledFrom([]int{0, 0, 1, 1, 2}).Draw(t, "k")
	keys := sortedKeys(logoutFaults)
	for i := 0; i < k; i++ {
		fk := rapid.SampledFrom(keys).Draw(t, "fault")
		f := Fault{Target: -1, Kind: fk, Variant: rapid.SampledFrom(logoutFaults[fk]).Draw(t, "variant")}
		if spec, ok := applyLogoutFault(&li.Model, sp, f); ok {
			c.Faults, c.Expect = append(c.Faults, f), append(c.Expect, spec)
		}
	}
	switch c.SigState {
	case "unsigned":
	case "untrusted":
		li.Sig = h.GenSignSpec([]string{"A", "A2"}).Draw(t, "sig")
	default:
		li.Sig = h.GenSignSpec(signers).Draw(t, "sig")
	}
	if rapid.IntRange(0, 9).Draw(t, "confuse") == 0 {
		c.Present = rapid.SampledFrom([]string{"as-other-logout", "as-sso"}).Draw(t, "present")
	}
	li.Layout = h.GenLayout(true).Draw(t, "layout")
	li.Pres = h.GenPresentation().Draw(t, "pres")
	if err := c.build(rapid.IntRange(0, 5).Draw(t, "wrapVariant")); err != nil {
		t.Fatalf("harness: %v", err)
	}
	return c
}

func (c *C10Case) build(variant int) error {
	li := c.Issue
	root, err := li.Tree()
	if err != nil {
		return err
	}
	ctx := &h.AttackCtx{SP: c.SP}
	switch c.SigState {
	case "tampered":
		if n := findFirst(root, "NameID"); n != nil {
			n.SetText("attacker@evil.example")
		} else {
			root.RemoveAttr("InResponseTo")
			root.CreateAttr("InResponseTo", "_forged")
		}
	case "wrapped", "wrapped-collide":
		b := 1
		if c.SigState == "wrapped-collide" {
			b = 0
		}
		a := map[string]int{"LogoutResponse": 2, "LogoutRequest": 3}[li.Model.Kind]
		root = ctx.Apply(root, h.Op{Kind: "wrap-root", A: a, B: b, C: variant, S: "attacker@evil.example"})
	case "relocated":
		// the genuine signature is moved under another element of the same message
		if s := findFirst(root, "Signature"); s != nil {
			root.RemoveChild(s)
			if iss := findFirst(root, "Issuer"); iss != nil && variant%2 == 0 {
				iss.AddChild(s)
			} else {
				ext := etree.NewElement("Extensions")
				ext.Space = root.Space
				ext.AddChild(s)
				root.AddChild(ext)
			}
		}
	}
	lay := li.Layout
	lay.AllowComments = lay.AllowComments && (li.Sig == nil || !h.C14NKeepsComments(li.Sig.C14N))
	c.Encoded = h.Encode(h.Serialize(root, lay), li.Pres)
	return nil
}

type logoutResult struct {
	err  error
	flag bool
	view h.LogoutView
}

func callLogout(sp h.SPConfig, kind, encoded string) logoutResult {
	if kind == "LogoutRequest" {
		r, err := sp.Build().ValidateEncodedLogoutRequestPOST(encoded)
		if err != nil {
			return logoutResult{err: err}
		}
		v := h.LogoutView{Kind: kind, ID: r.ID, Destination: r.Destination, Version: r.Version}
		if !r.IssueInstant.IsZero() {
			v.IssueInstant = r.IssueInstant.UnixNano()
		}
		if r.Issuer != nil {
			v.HasIssuer, v.Issuer = true, r.Issuer.Value
		}
		if r.NameID != nil {
			v.HasNameID, v.NameID = true, r.NameID.Value
		}
		return logoutResult{flag: r.SignatureValidated, view: v}
	}
	r, err := sp.Build().ValidateEncodedLogoutResponsePOST(encoded)
	if err != nil {
		return logoutResult{err: err}
	}
	return logoutResult{flag: r.SignatureValidated, view: h.ViewOfLogoutResponse(r)}
}

func sameSignedFields(want, got h.LogoutView) string {
	if want.ID != got.ID || want.InResponseTo != got.InResponseTo || want.Destination != got.Destination || want.Version != got.Version ||
		want.HasIssuer != got.HasIssuer || want.Issuer != got.Issuer || want.HasNameID != got.HasNameID || want.NameID != got.NameID ||
		want.HasStatus != got.HasStatus || want.HasCode != got.HasCode || want.StatusCode != got.StatusCode {
		return fmt.Sprintf("want %+v got %+v", want, got)
	}
	return ""
}

func checkC10(c C10Case) h.Outcome {
	o := h.Outcome{}
	m := &c.Issue.Model
	valid := logoutValid(m, c.SP)
	if valid != (len(c.Faults) == 0) {
		o.Violation = h.V("harness/model-vs-faults", "logoutValid=%v faults=%v", valid, c.Faults)
		return o
	}
	o.NonTrivial = len(c.Faults) > 0 || c.SigState != "trusted" || c.Present != "" || c.SP.Skip
	o.Classes = []string{"kind:" + m.Kind, "sig:" + c.SigState, fmt.Sprintf("k:%d", len(c.Faults)), fmt.Sprintf("skip:%v", c.SP.Skip), fmt.Sprintf("issuerConfigured:%v", c.SP.IdPIssuer != ""), "present:" + c.Present}
	for _, f := range c.Faults {
		o.Classes = append(o.Classes, "fault:"+f.Kind)
	}
	if c.Issue.Pres.Deflate {
		o.Classes = append(o.Classes, "deflate")
	}
	o.Classes = dedup(o.Classes)

	other := map[string]string{"LogoutRequest": "LogoutResponse", "LogoutResponse": "LogoutRequest"}[m.Kind]
	// kind confusion is checked for every case
	if r := callLogout(c.SP, other, c.Encoded); r.err == nil {
		o.Violation = h.V("type-confusion/"+m.Kind+"-as-"+other, "a %s was accepted by the %s validator", m.Kind, other)
		return o
	}
	if _, err := c.SP.Build().ValidateEncodedResponse(c.Encoded); err == nil {
		o.Violation = h.V("type-confusion/"+m.Kind+"-as-sso", "a %s was accepted by ValidateEncodedResponse", m.Kind)
		return o
	}
	if c.Present != "" {
		return o
	}
	r := callLogout(c.SP, m.Kind, c.Encoded)
	matches := func(got ErrSpec) bool {
		for _, e := range c.Expect {
			if specMatch(e, got) {
				return true
			}
		}
		return false
	}
	signedModel := m.View()
	switch {
	case c.SigState == "unsigned" || c.SigState == "trusted" || (c.SP.Skip && (c.SigState == "untrusted" || c.SigState == "tampered" || c.SigState == "relocated")):
		// outcome is decided by the profile checks alone
		if valid {
			if r.err != nil {
				o.Violation = h.V("valid-rejected/"+c.SigState, "genuine %s (%s) rejected: %v", m.Kind, c.SigState, r.err)
				return o
			}
			wantFlag := !c.SP.Skip && c.SigState == "trusted"
			if r.flag != wantFlag {
				o.Violation = h.V("flag-mismatch/"+c.SigState, "SignatureValidated=%v want %v (skip=%v)", r.flag, wantFlag, c.SP.Skip)
				return o
			}
			if c.SigState != "tampered" && c.SigState != "relocated" {
				if d := sameSignedFields(signedModel, r.view); d != "" {
					o.Violation = h.V("data-mismatch", "returned fields differ from the model: %s", d)
					return o
				}
			}
		} else {
			if r.err == nil {
				o.Violation = h.V("invalid-accepted/"+c.Faults[0].Kind, "accepted %s violating the profile: %v", m.Kind, c.Faults)
				return o
			}
			if got := specOf(r.err); !matches(got) {
				o.Violation = h.V("wrong-error/"+c.Faults[0].Kind, "faults %v expect one of %+v got %+v (%v)", c.Faults, c.Expect, got, r.err)
				return o
			}
		}
	case c.SigState == "untrusted" || c.SigState == "tampered":
		if r.err == nil {
			o.Violation = h.V("bad-signature-accepted/"+c.SigState, "%s with %s signature accepted (flag %v)", m.Kind, c.SigState, r.flag)
			return o
		}
		if r.err == dsig.ErrMissingSignature {
			o.Violation = h.V("downgraded-to-unsigned", "bad signature reported as missing")
			return o
		}
	default: // wrapped, wrapped-collide, relocated (validation on) : acceptance is allowed only without the flag...
		if r.err == nil && r.flag {
			if d := sameSignedFields(signedModel, r.view); d != "" {
				o.Violation = h.V("flag-on-wrapped-content/"+c.SigState, "reported validated but the fields are not the signed ones: %s", d)
				return o
			}
		}
		if r.err == nil && c.SP.Skip && r.flag {
			o.Violation = h.V("skip-flag-true", "flag true under skip")
			return o
		}
	}
	if r.err == nil && c.SP.Skip && r.flag {
		o.Violation = h.V("skip-flag-true", "flag true under skip")
		return o
	}
	// exported struct validators against the same model (independent of XML)
	var derr error
	if m.Kind == "LogoutRequest" {
		req := &saml2.LogoutRequest{ID: m.ID.Str(), Version: m.Version.Str(), Destination: m.Destination.Str()}
		if m.Issuer.Set {
			req.Issuer = &types.Issuer{Value: m.Issuer.V}
		}
		derr = c.SP.Build().ValidateDecodedLogoutRequest(req)
	} else {
		resp := &types.LogoutResponse{ID: m.ID.Str(), Version: m.Version.Str(), Destination: m.Destination.Str(), InResponseTo: m.InResponseTo.Str()}
		if m.Issuer.Set {
			resp.Issuer = &types.Issuer{Value: m.Issuer.V}
		}
		if m.HasStatus {
			resp.Status = &types.Status{}
			if m.HasCode {
				resp.Status.StatusCode = &types.StatusCode{Value: m.StatusCode.Str()}
			}
		}
		derr = c.SP.Build().ValidateDecodedLogoutResponse(resp)
	}
	if valid && derr != nil {
		o.Violation = h.V("decoded-valid-rejected", "ValidateDecoded%s rejected a valid struct: %v", m.Kind, derr)
	} else if !valid {
		if derr == nil {
			o.Violation = h.V("decoded-invalid-accepted/"+c.Faults[0].Kind, "ValidateDecoded%s accepted faults %v", m.Kind, c.Faults)
		} else if got := specOf(derr); !matches(got) {
			o.Violation = h.V("decoded-wrong-error/"+c.Faults[0].Kind, "ValidateDecoded%s: expect one of %+v got %+v", m.Kind, c.Expect, got)
		}
	}
	return o
}

func TestC10(t *testing.T) { h.RunProp(t, "C10", genC10, checkC10) }
func TestC10_Replay(t *testing.T) {
	h.RunReplay(t, "C10", checkC10)
	h.RunReplay(t, "C10.attack", checkC10Attack)
}

// TestC10_PAttack: the general attacker engine with a logout message as the working document.
func genC10Attack(t *rapid.T) AttackCase {
	return genAttackCase(t, attackOpts{skipAllowed: true, logoutBase: true, maxOps: 4})
}

func checkC10Attack(c AttackCase) h.Outcome {
	o := h.Outcome{}
	c.classes(&o)
	if v := c.judgeLogout(&o); v != nil {
		o.Violation = v
		return o
	}
	if !c.SP.Skip || true {
		if v := c.judgeSSO(&o); v != nil {
			o.Violation = v
		}
	}
	o.Classes = dedup(o.Classes)
	return o
}

func TestC10_PAttack(t *testing.T) { h.RunProp(t, "C10.attack", genC10Attack, checkC10Attack) }

// TestC10_Grid: every single fault x both kinds x {unsigned, trusted} x skip on/off x issuer configured or not.
func TestC10_Grid(t *testing.T) {
	var cases []C10Case
	for _, kind := range []string{"LogoutRequest", "LogoutResponse"} {
		for _, state := range []string{"unsigned", "trusted", "untrusted", "tampered", "wrapped", "wrapped-collide", "relocated"} {
			for _, skip := range []bool{false, true} {
				for _, issuer := range []bool{true, false} {
					var faults []Fault
					faults = append(faults, Fault{Target: -2})
					if state == "unsigned" || state == "trusted" {
						for _, k := range sortedKeys(logoutFaults) {
							for _, v := range logoutFaults[k] {
								faults = append(faults, Fault{Target: -1, Kind: k, Variant: v})
							}
						}
					}
					for i, f := range faults {
						sp := h.BaseSP()
						sp.Skip = skip
						if !issuer {
							sp.IdPIssuer = ""
						}
						if i%5 == 4 {
							sp.SLO = ""
						}
						li := &h.LogoutIssue{Model: h.PlainLogout(sp, kind), NS: h.NSStyle{P: "samlp", A: "saml"}}
						// the Issuer's optional Format attribute, in rotation: it never changes what is compared
						if fm := []string{"-", "urn:oasis:names:tc:SAML:2.0:nameid-format:entity", "-", "urn:oasis:names:tc:SAML:1.1:nameid-format:unspecified", "urn:oasis:names:tc:SAML:2.0:nameid-format:persistent", ""}[i%6]; fm != "-" {
							li.Model.IssuerFormat = h.S(fm)
						}
						c := C10Case{SP: sp, Issue: li, SigState: state}
						if f.Target != -2 {
							spec, ok := applyLogoutFault(&li.Model, sp, f)
							if !ok {
								continue
							}
							c.Faults, c.Expect = []Fault{f}, []ErrSpec{spec}
						}
						switch state {
						case "unsigned":
						case "untrusted":
							li.Sig = h.DefaultSign("A")
						default:
							li.Sig = h.DefaultSign("T1")
						}
						for variant := 0; variant < 6; variant++ {
							cc := c
							if err := cc.build(variant); err != nil {
								t.Fatalf("harness: %v", err)
							}
							cases = append(cases, cc)
							if state != "wrapped" && state != "wrapped-collide" && state != "relocated" {
								break
							}
						}
						_ = i
					}
				}
			}
		}
	}
	h.RunCases(t, "C10", cases, checkC10)
}
