package props

import (
	"fmt"
	"strings"
	"testing"
	"time"

	"github.com/beevik/etree"
	saml2 "github.com/russellhaering/gosaml2"
	dsig "github.com/russellhaering/goxmldsig"
	"pgregory.net/rapid"

	h "verif/harness"
)

// C02 — only trusted, currently valid IdP certificates vouch; bad signatures are fatal.

type C02Case struct {
	SP       h.SPConfig `json:"sp"`
	Kind     string     `json:"kind"`    // response | assertion | both | LogoutRequest | LogoutResponse ("both": the case's signature is on the Response, and the assertion carries a second, good signature by T2)
	Signer   h.CertRef  `json:"signer"`  // key + window of "its own" certificate
	KeyInfo  string     `json:"keyInfo"` // own | other | attacker | absent | empty
	Embedded *h.CertRef `json:"embedded,omitempty"`
	Tamper   string     `json:"tamper"` // none | content | digest | sigvalue | extra-ref-first | extra-ref-last
	ClockPos string     `json:"clockPos"`
	Method   string     `json:"method"`
	C14N     string     `json:"c14n"`
	Encoded  string     `json:"encoded"`
	// BigFirst (kind "dup"): the well-signed FIRST assertion carries this many attribute values and, with EncFirst,
	// travels encrypted — more elements than the signature library's traversal budget (1000) once decrypted.
	// Whatever the library does with such a tree, the bad signature of the assertion after it stays fatal.
	// BOM: the serialised message starts with a UTF-8 byte order mark (legal, and accepted by the library).
	BOM      bool `json:"bom,omitempty"`
	BigFirst int  `json:"bigFirst,omitempty"`
	EncFirst bool `json:"encFirst,omitempty"`
}

var clockPositions = []string{"nb-1s", "nb-1ns", "nb", "inside", "na", "na+1ns", "na+1s"}

func clockAt(w string, pos string) time.Time {
	if strings.HasPrefix(w, "wide-") {
		w = "wide"
	}
	nb, na := h.WindowBounds(w)
	switch pos {
	case "nb-1s":
		return nb.Add(-time.Second)
	case "nb-1ns":
		return nb.Add(-1)
	case "nb":
		return nb
	case "na":
		return na
	case "na+1ns":
		return na.Add(1)
	case "na+1s":
		return na.Add(time.Second)
	}
	return nb.Add(na.Sub(nb) / 2)
}

func sameCert(a, b h.CertRef) bool { return a.Key == b.Key && a.Window == b.Window }

func inStore(store []h.CertRef, c h.CertRef) bool {
	for _, s := range store {
		if sameCert(s, c) {
			return true
		}
	}
	return false
}

// resolve implements the property's rule for which certificate is consulted.
func (c *C02Case) resolve() *h.CertRef {
	switch c.KeyInfo {
	case "own", "other", "attacker", "lookalike":
		return c.Embedded
	case "absent":
		if len(c.SP.Store) == 1 {
			r := c.SP.Store[0]
			return &r
		}
	}
	return nil
}

func (c *C02Case) honoured() (bool, string) {
	r := c.resolve()
	if r == nil {
		return false, "no certificate resolvable"
	}
	if !inStore(c.SP.Store, *r) {
		return false, "certificate not in store"
	}
	now := c.SP.Now()
	x := r.X509()
	if now.Before(x.NotBefore) || now.After(x.NotAfter) {
		return false, "certificate outside validity at SP clock"
	}
	if r.Key != c.Signer.Key {
		return false, "certificate paired with a foreign key"
	}
	if c.Tamper != "none" {
		return false, "tampered: " + c.Tamper
	}
	return true, ""
}

// bothWindow: validity window of the certificate that signs the assertion in kind "both".
func (c *C02Case) bothWindow() string {
	if h.K("T2").Cert[c.Signer.Window] == nil {
		return "wide"
	}
	return c.Signer.Window
}

func methodFor(key string, i int) string {
	if h.K(key).Kind == "ecdsa" {
		return h.ECMethods[1+i%3]
	}
	return h.RSAMethods[i%4]
}

func genC02(t *rapid.T) C02Case {
	c := C02Case{SP: h.BaseSP()}
	c.Kind = rapid.SampledFrom([]string{"response", "assertion", "both", "dup", "LogoutRequest", "LogoutResponse"}).Draw(t, "kind")
	c.Signer = h.CertRef{Key: rapid.SampledFrom([]string{"T1", "T1", "T2", "T3", "A"}).Draw(t, "signerKey"), Window: rapid.SampledFrom(h.Windows).Draw(t, "window")}
	if (c.Signer.Key == "T1" || c.Signer.Key == "T2") && rapid.IntRange(0, 3).Draw(t, "skiCert") == 0 {
		// renewed certificate on an unchanged key, both with a SubjectKeyIdentifier (as openssl makes them)
		// ... or a certificate whose keyUsage lacks digitalSignature (an "encryption" certificate in the trust store)
		c.Signer.Window = rapid.SampledFrom([]string{"wide-ski", "wide-ski2", "wide-enc"}).Draw(t, "skiWindow")
	}
	c.KeyInfo = rapid.SampledFrom([]string{"own", "own", "own", "other", "attacker", "absent", "absent", "empty", "lookalike"}).Draw(t, "keyInfo")
	if c.KeyInfo == "lookalike" {
		// signed with the attacker's key; the embedded certificate (over that key) copies subject and
		// SubjectKeyIdentifier / serial number of a certificate that IS in the store
		c.Signer = h.CertRef{Key: "A", Window: "wide"}
	}
	c.Tamper = rapid.SampledFrom([]string{"none", "none", "none", "none", "none", "content", "digest", "sigvalue", "extra-ref-first", "extra-ref-last", "content-feff", "content-zwsp", "content-shy"}).Draw(t, "tamper")
	c.BOM = rapid.IntRange(0, 3).Draw(t, "bom") == 0
	c.ClockPos = rapid.SampledFrom(clockPositions).Draw(t, "clockPos")
	c.Method = methodFor(c.Signer.Key, rapid.IntRange(0, 3).Draw(t, "method"))
	c.C14N = rapid.SampledFrom(h.C14Ns).Draw(t, "c14n")
	// store composition
	pool := []h.CertRef{{Key: "T2", Window: "wide-enc"}, {Key: "U1", Window: "wide-enc"}, {Key: "T1", Window: "wide-enc"}, {Key: "U2", Window: "wide-enc"}, {Key: "T1", Window: "wide-ski"}, {Key: "T1", Window: "wide-ski2"}, {Key: "T2", Window: "wide-ski"}, {Key: "T2", Window: "wide-ski2"}, {Key: "T1", Window: "wide"}, {Key: "T2", Window: "wide"}, {Key: "T3", Window: "wide"}, {Key: "U1", Window: "wide"}, {Key: "U2", Window: "wide"},
		{Key: "T1", Window: "past"}, {Key: "T1", Window: "future"}, {Key: "T1", Window: "narrow"}, {Key: "T2", Window: "narrow"}}
	var store []h.CertRef
	if c.Signer.Key != "A" && rapid.IntRange(0, 4).Draw(t, "signerInStore") != 0 {
		store = append(store, c.Signer)
	}
	nOthers := rapid.IntRange(0, 3).Draw(t, "nOthers")
	if c.KeyInfo == "absent" && rapid.Bool().Draw(t, "singleStore") {
		nOthers = 0
	}
	for i := 0; i < nOthers; i++ {
		o := rapid.SampledFrom(pool).Draw(t, "other")
		if c.KeyInfo == "absent" && inStore(store, o) {
			continue // duplicate entries make "exactly one" ambiguous without KeyInfo: not generated
		}
		store = append(store, o)
	}
	if len(store) > 1 {
		store = rapid.Permutation(store).Draw(t, "storeOrder")
	}
	if c.KeyInfo == "lookalike" {
		for _, tr := range []h.CertRef{{Key: "T1", Window: "wide-ski"}, {Key: "T2", Window: "wide-ski"}, {Key: "T1", Window: "wide"}} {
			if !inStore(store, tr) {
				store = append(store, tr)
			}
		}
	}
	c.SP.Store = store
	if c.Kind == "dup" && rapid.IntRange(0, 2).Draw(t, "bigFirst") == 0 {
		c.BigFirst = rapid.SampledFrom([]int{300, 520, 980, 1010, 1300}).Draw(t, "bigFirstN")
		c.EncFirst = rapid.IntRange(0, 3).Draw(t, "encFirst") != 0
	}
	finishC02(&c, rapid.IntRange(0, 1000).Draw(t, "pick"), func(err error) { t.Fatalf("harness: %v", err) })
	return c
}

func finishC02(c *C02Case, pick int, fail func(error)) {
	if c.Kind == "both" || c.Kind == "dup" {
		// the assertion's own signature is good whenever the clock is inside the window: T2 with the same window, trusted
		if o := (h.CertRef{Key: "T2", Window: c.bothWindow()}); !inStore(c.SP.Store, o) {
			c.SP.Store = append(c.SP.Store, o)
		}
	}
	c.SP.NowUnixNano = clockAt(c.Signer.Window, c.ClockPos).UnixNano()
	switch c.KeyInfo {
	case "own":
		e := c.Signer
		c.Embedded = &e
	case "lookalike":
		e := h.CertRef{Key: "A", Window: []string{"like-T1ski", "like-T2ski", "like-T1"}[pick%3]}
		c.Embedded = &e
	case "attacker":
		e := h.CertRef{Key: "A", Window: "wide"}
		if c.Signer.Key == "A" {
			e = h.CertRef{Key: "A2", Window: "wide"}
		}
		c.Embedded = &e
	case "other":
		// another certificate that IS trusted (prefer one of a different key)
		var cands []h.CertRef
		for _, s := range c.SP.Store {
			if !sameCert(s, c.Signer) {
				cands = append(cands, s)
			}
		}
		if len(cands) == 0 {
			cands = []h.CertRef{{Key: "T2", Window: "wide"}}
		}
		e := cands[pick%len(cands)]
		c.Embedded = &e
	default:
		c.Embedded = nil
	}
	spec := &h.SignSpec{Signer: c.Signer, Embed: c.Embedded, EmptyKI: c.KeyInfo == "empty", Method: c.Method, C14N: c.C14N, Prefix: "ds", AfterIssuer: true}
	var root *etree.Element
	var err error
	switch c.Kind {
	case "dup":
		// unsigned Response with TWO assertions that carry the SAME ID: the first one well signed (T2), the second
		// one signed as this case says — each is judged on its own signature, whatever its ID
		g := gridGenuine(c.SP, 2, "assertions")
		g.Model.Assertions[1].ID = g.Model.Assertions[0].ID
		a := h.DefaultSign("T2")
		a.Signer.Window = c.bothWindow()
		e := a.Signer
		a.Embed = &e
		g.AsrtSig = []*h.SignSpec{a, spec}
		if c.BigFirst > 0 {
			vals := make([]string, c.BigFirst)
			for i := range vals {
				vals[i] = fmt.Sprintf("group-%d", i)
			}
			g.Model.Assertions[0].Attrs = []h.AttrModel{{Name: "groups", Values: vals}}
			if c.EncFirst {
				c.SP.Enc = h.KeyCfg{Mode: "tls", Field: h.CertRef{Key: "E1", Window: "long"}}
				e := &h.EncSpec{DataAlg: h.DataAlgs[pick%len(h.DataAlgs)], Transport: h.Transports[pick%3], Digest: "-", To: h.CertRef{Key: "E1", Window: "long"}}
				e.Key = make([]byte, h.KeyLen(e.DataAlg))
				e.IV = make([]byte, map[bool]int{true: 12, false: 16}[h.IsGCM(e.DataAlg)])
				g.Enc = []*h.EncSpec{e, nil}
			}
		}
		root, err = g.Tree()
	case "response", "assertion", "both":
		g := gridGenuine(c.SP, 1, map[string]string{"response": "response", "assertion": "assertions", "both": "both"}[c.Kind])
		switch c.Kind {
		case "response":
			g.RespSig = spec
		case "assertion":
			g.AsrtSig = []*h.SignSpec{spec}
		case "both":
			g.RespSig = spec
			a := h.DefaultSign("T2")
			a.Signer.Window = c.bothWindow()
			e := a.Signer
			a.Embed = &e
			g.AsrtSig = []*h.SignSpec{a}
		}
		root, err = g.Tree()
	default:
		li := &h.LogoutIssue{Model: h.PlainLogout(c.SP, c.Kind), NS: h.NSStyle{P: "samlp", A: "saml"}, Sig: spec}
		root, err = li.Tree()
	}
	if err != nil {
		fail(err)
		return
	}
	tamper(root, c.Kind, c.Tamper)
	c.Encoded = h.Encode(h.Serialize(root, h.Layout{BOM: c.BOM}), h.Presentation{})
}

func findFirst(el *etree.Element, tag string) *etree.Element {
	if el.Tag == tag {
		return el
	}
	for _, ch := range el.ChildElements() {
		if f := findFirst(ch, tag); f != nil {
			return f
		}
	}
	return nil
}

func flipB64(s string) string {
	if s == "" {
		return "AAAA"
	}
	b := []byte(s)
	i := len(b) / 2
	if b[i] == 'A' {
		b[i] = 'B'
	} else {
		b[i] = 'A'
	}
	return string(b)
}

// tamper edits the signed tree after signing.
func tamper(root *etree.Element, kind, how string) {
	if kind == "dup" {
		// everything happens inside the SECOND assertion (the last plaintext one: the first may travel encrypted)
		as := h.AssertionElements(root)
		if len(as) < 1 {
			return
		}
		second := as[len(as)-1]
		holder := etree.NewElement("holder")
		idx := second.Index()
		root.RemoveChildAt(idx)
		holder.AddChild(second)
		tamper(holder, "assertion", how)
		root.InsertChildAt(idx, second)
		return
	}
	switch how {
	case "content-feff", "content-zwsp", "content-shy":
		// an INVISIBLE character slipped into signed text after signing (U+FEFF is also what a byte order mark is
		// made of; a decoder that "cleans" the input must not clean the alteration away)
		ch := map[string]string{"content-feff": "\uFEFF", "content-zwsp": "\u200B", "content-shy": "\u00AD"}[how]
		signed := root
		if kind == "assertion" {
			signed = findFirst(root, "Assertion")
		}
		if n := findFirst(signed, "NameID"); n != nil {
			t := n.Text()
			n.SetText(t[:len(t)/2] + ch + t[len(t)/2:])
		} else if n := findFirst(signed, "Issuer"); n != nil {
			t := n.Text()
			n.SetText(t[:len(t)/2] + ch + t[len(t)/2:])
		}
	case "content":
		signed := root
		if kind == "assertion" {
			signed = findFirst(root, "Assertion")
		}
		if n := findFirst(signed, "NameID"); n != nil {
			n.SetText("attacker@evil.example")
		} else {
			signed.CreateAttr("InResponseTo", "_forged")
		}
	case "digest":
		if d := findFirst(root, "DigestValue"); d != nil {
			d.SetText(flipB64(d.Text()))
		}
	case "sigvalue":
		if d := findFirst(root, "SignatureValue"); d != nil {
			d.SetText(flipB64(d.Text()))
		}
	case "extra-ref-first", "extra-ref-last":
		// a second ds:Reference (to something else) in the SignedInfo of the element's own signature: legal
		// XML-DSig, and the signature no longer verifies because SignedInfo changed after signing
		signed := root
		if kind == "assertion" {
			signed = findFirst(root, "Assertion")
		}
		for _, sg := range signed.ChildElements() {
			if sg.Tag != "Signature" {
				continue
			}
			si := findFirst(sg, "SignedInfo")
			ref := findFirst(si, "Reference")
			if si == nil || ref == nil {
				continue
			}
			cp := ref.Copy()
			cp.RemoveAttr("URI")
			cp.CreateAttr("URI", "#_some_other_element")
			if how == "extra-ref-first" {
				si.InsertChildAt(ref.Index(), cp)
			} else {
				si.AddChild(cp)
			}
			break
		}
	}
}

func checkC02(c C02Case) h.Outcome {
	return judgeC02(c, func() *saml2.SAMLServiceProvider { return c.SP.Build() })
}

// judgeC02 evaluates one case; newSP supplies the service provider for each entry-point call (a fresh one,
// or a long-lived instance that has just been re-configured to c.SP's clock and store).
func judgeC02(c C02Case, newSP func() *saml2.SAMLServiceProvider) h.Outcome {
	o := h.Outcome{}
	hon, why := c.honoured()
	if c.Kind == "dup" && hon {
		// the companion (first) assertion is signed by T2 with a certificate of the same window: outside that
		// window the message is refused because of IT, however honourable the case's own signature is
		x := (h.CertRef{Key: "T2", Window: c.bothWindow()}).X509()
		if now := c.SP.Now(); now.Before(x.NotBefore) || now.After(x.NotAfter) {
			hon, why = false, "companion assertion's certificate outside validity at SP clock"
		}
	}
	trivial := c.Signer.Key != "A" && c.KeyInfo == "own" && c.ClockPos == "inside" && c.Tamper == "none" && inStore(c.SP.Store, c.Signer)
	o.NonTrivial = !trivial
	o.Classes = []string{"kind:" + c.Kind, "keyinfo:" + c.KeyInfo, "tamper:" + c.Tamper, fmt.Sprintf("bom:%v", c.BOM), "clock:" + c.ClockPos, "window:" + c.Signer.Window,
		fmt.Sprintf("store:%d", len(c.SP.Store)), fmt.Sprintf("honoured:%v", hon), "signer:" + c.Signer.Key}
	if !hon {
		o.Classes = append(o.Classes, "reject:"+strings.SplitN(why, ":", 2)[0])
	}
	if c.BigFirst > 0 {
		o.Classes = append(o.Classes, fmt.Sprintf("big-first:%d/enc:%v", c.BigFirst, c.EncFirst))
	}
	type res struct {
		entry     string
		err       error
		rootFlag  bool
		asrtFlags []bool
	}
	var rs []res
	switch c.Kind {
	case "response", "assertion", "both", "dup":
		r, err := newSP().ValidateEncodedResponse(c.Encoded)
		x := res{entry: "ValidateEncodedResponse", err: err}
		if err == nil {
			x.rootFlag = r.SignatureValidated
			for _, a := range r.Assertions {
				x.asrtFlags = append(x.asrtFlags, a.SignatureValidated)
			}
		}
		rs = append(rs, x)
		info, err := newSP().RetrieveAssertionInfo(c.Encoded)
		y := res{entry: "RetrieveAssertionInfo", err: err}
		if err == nil {
			y.rootFlag = info.ResponseSignatureValidated
			for _, a := range info.Assertions {
				y.asrtFlags = append(y.asrtFlags, a.SignatureValidated)
			}
		}
		rs = append(rs, y)
	case "LogoutRequest":
		r, err := newSP().ValidateEncodedLogoutRequestPOST(c.Encoded)
		x := res{entry: "ValidateEncodedLogoutRequestPOST", err: err}
		if err == nil {
			x.rootFlag = r.SignatureValidated
		}
		rs = append(rs, x)
	case "LogoutResponse":
		r, err := newSP().ValidateEncodedLogoutResponsePOST(c.Encoded)
		x := res{entry: "ValidateEncodedLogoutResponsePOST", err: err}
		if err == nil {
			x.rootFlag = r.SignatureValidated
		}
		rs = append(rs, x)
	}
	for _, r := range rs {
		if hon && c.BigFirst > 0 && r.err != nil {
			// a tree beyond the signature library's traversal budget may be refused as a whole: no expectation
			o.Classes = append(o.Classes, "big-first:refused")
			continue
		}
		if hon {
			if r.err != nil {
				o.Violation = h.V("honourable-rejected/"+c.Kind, "%s rejected a signature that must be honoured (signer %v, keyinfo %s, store %v, clock %s): %v", r.entry, c.Signer, c.KeyInfo, c.SP.Store, c.ClockPos, r.err)
				return o
			}
			// logout kinds: the flag is true exactly when the root signature verified (C10). SSO kinds: C04's
			// rules — a root flag needs a signed root; root flag false needs every assertion flagged, and an
			// assertion flag needs an own signature. With exactly one signed element this pins both flags.
			switch c.Kind {
			case "LogoutRequest", "LogoutResponse":
				if !r.rootFlag {
					o.Violation = h.V("flag-mismatch/"+c.Kind, "%s: signature honoured but SignatureValidated=false", r.entry)
					return o
				}
			case "dup":
				if r.rootFlag || len(r.asrtFlags) != 2 || !r.asrtFlags[0] || !r.asrtFlags[1] {
					o.Violation = h.V("flag-mismatch/dup", "%s: root flag %v, assertion flags %v for an unsigned Response with two individually signed assertions", r.entry, r.rootFlag, r.asrtFlags)
					return o
				}
			case "both":
				if !r.rootFlag {
					o.Violation = h.V("flag-mismatch/both", "%s: root flag false for a Response whose own signature must be honoured", r.entry)
					return o
				}
			case "response":
				if !r.rootFlag || (len(r.asrtFlags) > 0 && r.asrtFlags[0]) {
					o.Violation = h.V("flag-mismatch/response", "%s: root flag %v, assertion flags %v for a signed Response with an unsigned assertion", r.entry, r.rootFlag, r.asrtFlags)
					return o
				}
			case "assertion":
				if r.rootFlag || len(r.asrtFlags) != 1 || !r.asrtFlags[0] {
					o.Violation = h.V("flag-mismatch/assertion", "%s: root flag %v, assertion flags %v for an unsigned Response with a signed assertion", r.entry, r.rootFlag, r.asrtFlags)
					return o
				}
			}
			continue
		}
		if r.err == nil {
			sig := "dishonourable-accepted/" + c.Kind + "/" + strings.SplitN(why, ":", 2)[0]
			o.Violation = h.V(sig, "%s accepted (root flag %v, assertion flags %v) although: %s (signer %v, keyinfo %s embedded %v, store %v, clock %s=%s, tamper %s)",
				r.entry, r.rootFlag, r.asrtFlags, why, c.Signer, c.KeyInfo, c.Embedded, c.SP.Store, c.ClockPos, c.SP.Now().Format(time.RFC3339Nano), c.Tamper)
			return o
		}
		if r.err == dsig.ErrMissingSignature {
			o.Violation = h.V("downgraded-to-unsigned/"+c.Kind, "%s reported a present-but-bad signature as missing", r.entry)
			return o
		}
	}
	return o
}

// C02Seq: ONE long-lived service provider whose clock and certificate store are re-assigned between
// validations (time passing, key roll-over by replacing the store). Every step must be judged by the
// configuration in force at that step, exactly as a fresh instance would.
type C02Seq struct {
	Steps     []C02Case `json:"steps"`
	KeepClock bool      `json:"keepClock"` // all steps at the same instant: the Clock object is never replaced, only the store
}

func genC02Seq(t *rapid.T) C02Seq {
	n := rapid.IntRange(2, 4).Draw(t, "steps")
	q := C02Seq{KeepClock: rapid.Bool().Draw(t, "keepClock")}
	for i := 0; i < n; i++ {
		c := genC02(t)
		if q.KeepClock && i > 0 {
			// same window and clock position as the first step, so the instant (and the clock object) stays
			c.Signer.Window, c.ClockPos = q.Steps[0].Signer.Window, q.Steps[0].ClockPos
			if h.K(c.Signer.Key).Cert[c.Signer.Window] == nil {
				c.Signer.Window = "wide" // the SKI-bearing certificates exist for T1 / T2 only; same validity window
			}
			for j := range c.SP.Store {
				if c.SP.Store[j].Key == c.Signer.Key {
					c.SP.Store[j].Window = c.Signer.Window
				}
			}
			finishC02(&c, i, func(err error) { t.Fatalf("harness: %v", err) })
		}
		q.Steps = append(q.Steps, c)
	}
	return q
}

func checkC02Seq(q C02Seq) h.Outcome {
	o := h.Outcome{NonTrivial: true}
	sp := q.Steps[0].SP.Build()
	o.Classes = append(o.Classes, fmt.Sprintf("keepClock:%v", q.KeepClock))
	for i, c := range q.Steps {
		if !q.KeepClock || !sp.Clock.Now().Equal(c.SP.Now()) {
			sp.Clock = dsig.NewFakeClockAt(c.SP.Now())
		}
		sp.IDPCertificateStore = h.Store(c.SP.Store)
		so := judgeC02(c, func() *saml2.SAMLServiceProvider { return sp })
		hon, _ := c.honoured()
		o.Classes = append(o.Classes, fmt.Sprintf("step%d:honoured:%v", i, hon))
		if so.Violation != nil {
			so.Violation.Sig = "reused-sp/" + so.Violation.Sig
			so.Violation.Detail = fmt.Sprintf("step %d of %d on a re-configured long-lived service provider: %s", i+1, len(q.Steps), so.Violation.Detail)
			o.Violation = so.Violation
			return o
		}
	}
	return o
}

func TestC02_PSeq(t *testing.T) { h.RunProp(t, "C02.seq", genC02Seq, checkC02Seq) }

func TestC02(t *testing.T) { h.RunProp(t, "C02", genC02, checkC02) }
func TestC02_Replay(t *testing.T) {
	h.RunReplay(t, "C02", checkC02)
	h.RunReplay(t, "C02.seq", checkC02Seq)
}

// TestC02_Grid: exhaustive boundary grid — 4 kinds x 4 windows x 7 clock positions x KeyInfo variants x store sizes 0..3.
func TestC02_Grid(t *testing.T) {
	var cases []C02Case
	i := 0
	for _, kind := range []string{"response", "assertion", "LogoutRequest", "LogoutResponse"} {
		for _, w := range h.Windows {
			for _, pos := range clockPositions {
				for _, ki := range []string{"own", "other", "attacker", "absent", "empty"} {
					for storeN := 0; storeN <= 3; storeN++ {
						i++
						signer := h.CertRef{Key: []string{"T1", "T2", "T3"}[i%3], Window: w}
						c := C02Case{SP: h.BaseSP(), Kind: kind, Signer: signer, KeyInfo: ki, Tamper: "none", ClockPos: pos, Method: methodFor(signer.Key, i), C14N: h.C14Ns[i%len(h.C14Ns)]}
						fill := []h.CertRef{{Key: "U1", Window: "wide"}, {Key: "T2", Window: w}, {Key: "U2", Window: "wide"}}
						var store []h.CertRef
						if storeN > 0 {
							store = append(store, signer)
							for k := 0; k < storeN-1; k++ {
								if !sameCert(fill[k], signer) {
									store = append(store, fill[k])
								}
							}
							// rotate so the signer is not always first
							r := i % len(store)
							store = append(store[r:], store[:r]...)
						}
						c.SP.Store = store
						finishC02(&c, i, func(err error) { t.Fatalf("harness: %v", err) })
						cases = append(cases, c)
					}
				}
			}
		}
	}
	// attacker key, and tampering, at every kind
	for _, kind := range []string{"response", "assertion", "both", "dup", "LogoutRequest", "LogoutResponse"} {
		for _, tm := range []string{"content", "digest", "sigvalue", "extra-ref-first", "extra-ref-last", "none", "content-feff", "content-zwsp", "content-shy", "content-feff+bom", "none+bom", "content+bom"} {
			for _, ki := range []string{"own", "absent"} {
				c := C02Case{SP: h.BaseSP(), Kind: kind, Signer: h.CertRef{Key: "T1", Window: "wide"}, KeyInfo: ki, Tamper: strings.TrimSuffix(tm, "+bom"), BOM: strings.HasSuffix(tm, "+bom"), ClockPos: "inside", Method: h.RSAMethods[1], C14N: h.C14Ns[0]}
				c.SP.Store = []h.CertRef{c.Signer}
				finishC02(&c, 0, func(err error) { t.Fatalf("harness: %v", err) })
				cases = append(cases, c)
			}
		}
		for _, ki := range []string{"own", "other", "absent"} {
			c := C02Case{SP: h.BaseSP(), Kind: kind, Signer: h.CertRef{Key: "A", Window: "wide"}, KeyInfo: ki, Tamper: "none", ClockPos: "inside", Method: h.RSAMethods[1], C14N: h.C14Ns[0]}
			c.SP.Store = []h.CertRef{{Key: "T1", Window: "wide"}}
			finishC02(&c, 0, func(err error) { t.Fatalf("harness: %v", err) })
			cases = append(cases, c)
		}
	}
	// a big (and encrypted) well-signed first assertion in front of a badly signed second one
	for _, n := range []int{300, 990, 1010, 1300} {
		for _, enc := range []bool{false, true} {
			for ti, tm := range []string{"content", "digest", "sigvalue", "none"} {
				for _, signer := range []string{"T1", "A"} {
					c := C02Case{SP: h.BaseSP(), Kind: "dup", Signer: h.CertRef{Key: signer, Window: "wide"}, KeyInfo: "own", Tamper: tm, ClockPos: "inside", Method: h.RSAMethods[1], C14N: h.C14Ns[0], BigFirst: n, EncFirst: enc}
					c.SP.Store = []h.CertRef{{Key: "T1", Window: "wide"}}
					finishC02(&c, ti, func(err error) { t.Fatalf("harness: %v", err) })
					cases = append(cases, c)
				}
			}
		}
	}
	// renewed certificate on the same key (both with a SubjectKeyIdentifier): each member is honoured with
	// KeyInfo, and two entries are two entries when the message names no certificate
	for _, kind := range []string{"response", "assertion", "LogoutRequest", "LogoutResponse"} {
		for _, signWith := range []string{"wide-ski", "wide-ski2"} {
			for _, ki := range []string{"own", "absent"} {
				for _, order := range []int{0, 1} {
					c := C02Case{SP: h.BaseSP(), Kind: kind, Signer: h.CertRef{Key: "T1", Window: signWith}, KeyInfo: ki, Tamper: "none", ClockPos: "inside", Method: h.RSAMethods[1], C14N: h.C14Ns[0]}
					c.SP.Store = []h.CertRef{{Key: "T1", Window: "wide-ski"}, {Key: "T1", Window: "wide-ski2"}}
					if order == 1 {
						c.SP.Store[0], c.SP.Store[1] = c.SP.Store[1], c.SP.Store[0]
					}
					finishC02(&c, 0, func(err error) { t.Fatalf("harness: %v", err) })
					cases = append(cases, c)
				}
			}
		}
	}
	// a signing certificate next to "encryption" certificates (keyUsage without digitalSignature) in the store:
	// the store holds as many certificates as it holds, whatever their key usage; and a member signs with
	// whatever key usage it has
	for _, kind := range []string{"response", "assertion", "LogoutRequest", "LogoutResponse"} {
		for _, ki := range []string{"own", "absent"} {
			for _, signer := range []h.CertRef{{Key: "T1", Window: "wide"}, {Key: "T2", Window: "wide-enc"}} {
				for _, order := range []int{0, 1} {
					c := C02Case{SP: h.BaseSP(), Kind: kind, Signer: signer, KeyInfo: ki, Tamper: "none", ClockPos: "inside", Method: h.RSAMethods[1], C14N: h.C14Ns[0]}
					c.SP.Store = []h.CertRef{{Key: "T1", Window: "wide"}, {Key: "T2", Window: "wide-enc"}}
					if order == 1 {
						c.SP.Store = []h.CertRef{{Key: "U1", Window: "wide-enc"}, {Key: "T2", Window: "wide-enc"}, {Key: "T1", Window: "wide"}}
					}
					finishC02(&c, 0, func(err error) { t.Fatalf("harness: %v", err) })
					cases = append(cases, c)
				}
			}
		}
	}
	h.RunCases(t, "C02", cases, checkC02)
}
