package props

import (
	"fmt"
	saml2 "github.com/russellhaering/gosaml2"
	dsig "github.com/russellhaering/goxmldsig"
	"strings"
	"testing"
	"time"

	"pgregory.net/rapid"

	h "verif/harness"
)

// C05 — expiry and validity-window decisions are exact for every clock position.

// Bound is one timestamp attribute: either an instant at now+Delta rendered some way, or a defect.
type Bound struct {
	DeltaNs int64  `json:"deltaNs"`
	Text    string `json:"text"`   // rendered value actually placed in the message
	Defect  string `json:"defect"` // "", "absent", "empty", "garbage", "dateonly", "nozone", "lspace", "tspace"
}

type C05Case struct {
	SP       h.SPConfig `json:"sp"`
	SC       []Bound    `json:"sc"` // subject-confirmation NotOnOrAfter per assertion
	NB       Bound      `json:"nb"` // first assertion Conditions NotBefore
	CN       Bound      `json:"cn"` // first assertion Conditions NotOnOrAfter
	NoCond   bool       `json:"noConditions"`
	Mode     string     `json:"mode"`
	Encoded  string     `json:"encoded"`
	Boundary bool       `json:"boundary"`
	// Cond: what else the first assertion's Conditions hold — the window decision must not depend on it:
	// "" nothing, "foreign-aud", "match+foreign", "foreign+match", "otu+proxy", "all"
	Cond string `json:"cond,omitempty"`
	// Session: the first assertion carries an AuthnStatement whose SessionNotOnOrAfter lies "past" / "equal" /
	// "future" relative to the clock ("" = no AuthnStatement): another instant in the message that is neither of
	// the bounds the property names — it decides nothing
	Session string `json:"session,omitempty"`
}

var deltaGrid = []int64{-int64(time.Hour), -int64(time.Second), -1, 0, 1, int64(time.Second), int64(time.Hour)}

func genDelta(t *rapid.T, label string) int64 {
	if rapid.IntRange(0, 3).Draw(t, label+"Grid") != 0 {
		return rapid.SampledFrom(deltaGrid).Draw(t, label)
	}
	return rapid.Int64Range(-int64(48*time.Hour), int64(48*time.Hour)).Draw(t, label+"Free")
}

var extremeInstants = []string{"9999-12-31T23:59:59Z", "9999-12-31T23:59:59.999999999+00:00", "0001-01-01T00:00:00Z", "0000-01-01T00:00:00Z", "2262-04-11T23:47:16.854775807Z", "1677-09-21T00:12:43.145224192Z", "2400-02-29T12:00:00+14:00", "1969-12-31T23:59:59.999999999Z"}

func renderBound(t *rapid.T, now time.Time, delta int64, defectOK bool, label string) Bound {
	if rapid.IntRange(0, 11).Draw(t, label+"Extreme") == 0 {
		// "never expires" / "always valid" style bounds centuries away from the clock
		txt := rapid.SampledFrom(extremeInstants).Draw(t, label+"ExtremeText")
		at, err := time.Parse(time.RFC3339, txt)
		if err == nil {
			// only the sign of the difference matters to the model; Sub saturates, so derive it from Before/After
			d := int64(0)
			switch {
			case at.After(now):
				d = 1 << 62
			case at.Before(now):
				d = -(1 << 62)
			}
			return Bound{DeltaNs: d, Text: txt}
		}
	}
	b := Bound{DeltaNs: delta}
	at := now.Add(time.Duration(delta))
	if defectOK && rapid.IntRange(0, 7).Draw(t, label+"Defective") == 0 {
		b.Defect = rapid.SampledFrom([]string{"absent", "empty", "garbage", "dateonly", "nozone", "lspace", "tspace", "lower-tz", "space-sep", "plus-sign-missing"}).Draw(t, label+"Defect")
		switch b.Defect {
		case "empty":
			b.Text = ""
		case "garbage":
			b.Text = "not-a-time"
		case "dateonly":
			b.Text = at.UTC().Format("2006-01-02")
		case "nozone":
			b.Text = at.UTC().Format("2006-01-02T15:04:05")
		case "lspace":
			b.Text = " " + at.UTC().Format(time.RFC3339Nano)
		case "tspace":
			b.Text = at.UTC().Format(time.RFC3339Nano) + " "
		case "lower-tz": // RFC 3339 allows "t" / "z"; xs:dateTime and Go's parser do not
			b.Text = strings.ToLower(at.UTC().Format(time.RFC3339))
		case "space-sep":
			b.Text = at.UTC().Format("2006-01-02 15:04:05Z")
		case "plus-sign-missing":
			b.Text = at.UTC().Format("2006-01-02T15:04:05") + "00:00"
		}
		return b
	}
	b.Text = h.GenTimeString(at).Draw(t, label+"Text")
	return b
}

func (b Bound) opt() h.Opt {
	if b.Defect == "absent" {
		return h.None
	}
	return h.S(b.Text)
}

func c05Issue(c *C05Case) *h.Genuine {
	g := gridGenuine(c.SP, len(c.SC), c.Mode)
	if c.SP.NilClock {
		for _, sg := range append([]*h.SignSpec{g.RespSig}, g.AsrtSig...) {
			if sg != nil {
				sg.Signer.Window = "long"
				e := sg.Signer
				sg.Embed = &e
			}
		}
	}
	for i := range g.Model.Assertions {
		a := &g.Model.Assertions[i]
		a.SCNotOnOrAfter = c.SC[i].opt()
		if i == 0 {
			a.NotBefore, a.NotOnOrAfter = c.NB.opt(), c.CN.opt()
			a.HasConditions = !c.NoCond
			if c.Session != "" {
				d := map[string]time.Duration{"past": -time.Hour, "equal": 0, "future": time.Hour, "past-far": -30 * 24 * time.Hour}[c.Session]
				a.HasAuthn, a.SessionIndex = true, h.S("_session")
				a.AuthnInstant = h.S(c.SP.Now().Add(-time.Minute).UTC().Format(time.RFC3339))
				a.SessionNotOnOrAfter = h.S(h.RenderTime(c.SP.Now().Add(d), []int{0, 120, -300}[len(c.SC)%3], len(c.SC)%2 == 0, 9))
			}
			match, foreign := []string{c.SP.Audience}, []string{"https://someone-else.example.org/sp"}
			switch c.Cond {
			case "foreign-aud":
				a.Audiences = [][]string{foreign}
			case "match+foreign":
				a.Audiences = [][]string{match, foreign}
			case "foreign+match":
				a.Audiences = [][]string{foreign, match}
			case "otu+proxy":
				a.OneTimeUse, a.HasProxy, a.ProxyCount, a.ProxyAudience = true, true, h.S("2"), foreign
			case "all":
				a.Audiences = [][]string{match, foreign, {}}
				a.OneTimeUse, a.HasProxy, a.ProxyAudience = true, true, match
			}
		} else {
			// later assertions carry Conditions that would flip the warning if they were read
			a.NotBefore = h.S(c.SP.Now().Add(time.Hour).UTC().Format(time.RFC3339))
			a.NotOnOrAfter = h.S(c.SP.Now().Add(-time.Hour).UTC().Format(time.RFC3339))
			if c.NB.DeltaNs > 0 || c.CN.DeltaNs <= 0 {
				a.NotBefore = h.S(c.SP.Now().Add(-time.Hour).UTC().Format(time.RFC3339))
				a.NotOnOrAfter = h.S(c.SP.Now().Add(time.Hour).UTC().Format(time.RFC3339))
			}
		}
	}
	return g
}

func genC05(t *rapid.T) C05Case {
	sp := h.BaseSP()
	base := time.Date(2021, 1, 1, 0, 0, 0, 0, time.UTC).UnixNano()
	sp.NowUnixNano = base + rapid.Int64Range(0, int64(18*365*24*time.Hour)).Draw(t, "now")
	sp.NowOffset = rapid.SampledFrom([]int{0, 0, 120, -480, 345}).Draw(t, "clockZone")
	c := C05Case{SP: sp, Mode: rapid.SampledFrom([]string{"response", "assertions", "both", "skip"}).Draw(t, "mode")}
	if c.Mode == "skip" {
		c.SP.Skip = true
	}
	now := sp.Now()
	n := rapid.IntRange(1, 3).Draw(t, "nAssertions")
	for i := 0; i < n; i++ {
		d := genDelta(t, "scDelta")
		if rapid.IntRange(0, 2).Draw(t, "scFuture") != 0 && d <= 0 {
			d = -d + 1 // bias towards not-expired so that the Conditions logic is reached
		}
		c.SC = append(c.SC, renderBound(t, now, d, true, "sc"))
	}
	// a later assertion's bound that is a defective RE-SPELLING of the bound before it (same characters in another
	// case, with a blank, truncated): an unparsable bound is rejected whatever it resembles
	if n >= 2 && rapid.IntRange(0, 3).Draw(t, "respellPrevious") == 0 {
		i := rapid.IntRange(1, n-1).Draw(t, "respellAt")
		if prev := c.SC[i-1]; prev.Defect == "" && prev.Text != "" {
			how := rapid.SampledFrom([]string{"lower", "upper-z-lower-t", "trailing-blank", "truncated"}).Draw(t, "respellHow")
			txt := prev.Text
			switch how {
			case "lower":
				txt = strings.ToLower(txt)
			case "upper-z-lower-t":
				txt = strings.Replace(txt, "T", "t", 1)
			case "trailing-blank":
				txt += " "
			case "truncated":
				txt = txt[:len(txt)-1]
			}
			if txt != prev.Text {
				c.SC[i] = Bound{DeltaNs: prev.DeltaNs, Text: txt, Defect: "respelled-" + how}
			}
		}
	}
	c.NB = renderBound(t, now, genDelta(t, "nbDelta"), true, "nb")
	c.CN = renderBound(t, now, genDelta(t, "cnDelta"), true, "cn")
	if rapid.IntRange(0, 11).Draw(t, "noClock") == 0 {
		// a service provider WITHOUT a Clock follows the system time: the documents are dated by a nominal 2050 and
		// every bound lies at least 45 years away from it (before 2005 / after 2095), so that the decisions are the
		// same wherever between those years the system clock stands. Signed with the 1960-2260 certificate.
		c.SP.NilClock, c.SP.NowOffset, c.SP.NowZone = true, 0, ""
		c.SP.NowUnixNano = time.Date(2050, 1, 1, 0, 0, 0, 0, time.UTC).UnixNano()
		c.SP.Store = []h.CertRef{{Key: "T1", Window: "long"}}
		far := func(label string, b Bound) Bound {
			if b.Defect != "" {
				return b
			}
			years := time.Duration(rapid.IntRange(45, 150).Draw(t, label+"FarYears")) * 365 * 24 * time.Hour
			d := int64(years)
			if b.DeltaNs <= 0 {
				d = -d
			}
			return Bound{DeltaNs: d, Text: h.GenTimeString(c.SP.Now().Add(time.Duration(d))).Draw(t, label+"FarText")}
		}
		for i := range c.SC {
			c.SC[i] = far("sc", c.SC[i])
		}
		c.NB, c.CN = far("nb", c.NB), far("cn", c.CN)
	}
	c.NoCond = rapid.IntRange(0, 15).Draw(t, "noConditions") == 0
	c.Cond = rapid.SampledFrom([]string{"", "", "foreign-aud", "match+foreign", "foreign+match", "otu+proxy", "all"}).Draw(t, "otherConditions")
	c.Session = rapid.SampledFrom([]string{"", "", "past", "equal", "future", "past-far"}).Draw(t, "sessionNotOnOrAfter")
	finishC05(&c, func(err error) { t.Fatalf("harness: %v", err) })
	return c
}

func finishC05(c *C05Case, fail func(error)) {
	g := c05Issue(c)
	_, enc, _, err := g.Render()
	if err != nil {
		fail(err)
	}
	c.Encoded = enc
	for _, b := range append(append([]Bound{}, c.SC...), c.NB, c.CN) {
		if b.Defect == "" && b.DeltaNs >= -int64(time.Second) && b.DeltaNs <= int64(time.Second) {
			c.Boundary = true
		}
	}
}

func parseDefect(b Bound, tag, attrTag string) (ErrSpec, bool) {
	switch b.Defect {
	case "":
		return ErrSpec{}, false
	case "absent", "empty":
		return ErrSpec{Type: "ErrMissingElement", Tag: tag, Attr: attrTag}, true
	}
	return ErrSpec{Type: "ErrParsing", Tag: attrTag}, true
}

func checkC05(c C05Case) h.Outcome {
	return judgeC05(c, func() *saml2.SAMLServiceProvider { return c.SP.Build() })
}

func judgeC05(c C05Case, newSP func() *saml2.SAMLServiceProvider) h.Outcome {
	o := h.Outcome{}
	nonUTC := false
	for _, b := range append(append([]Bound{}, c.SC...), c.NB, c.CN) {
		if b.Defect != "" || (len(b.Text) > 0 && b.Text[len(b.Text)-1] != 'Z') || len(b.Text) > 20 {
			nonUTC = true
		}
	}
	o.NonTrivial = c.Boundary || nonUTC
	o.Classes = append(o.Classes, "mode:"+c.Mode, fmt.Sprintf("n:%d", len(c.SC)), "session:"+c.Session)
	if c.SP.NilClock {
		o.Classes = append(o.Classes, "no-clock")
	}
	cls := func(name string, b Bound) {
		switch {
		case b.Defect != "":
			o.Classes = append(o.Classes, name+":defect:"+b.Defect)
		case b.DeltaNs == 0:
			o.Classes = append(o.Classes, name+":equal")
		case b.DeltaNs == 1 || b.DeltaNs == -1:
			o.Classes = append(o.Classes, name+":1ns")
		case b.DeltaNs > 0:
			o.Classes = append(o.Classes, name+":future")
		default:
			o.Classes = append(o.Classes, name+":past")
		}
	}
	for _, b := range c.SC {
		cls("sc", b)
	}
	cls("nb", c.NB)
	cls("cn", c.CN)
	o.Classes = dedup(o.Classes)

	// ---- model --------------------------------------------------------------
	var expectErr []ErrSpec
	expired := false
	scDefect := false
	for _, b := range c.SC {
		if e, bad := parseDefect(b, "SubjectConfirmationData", "NotOnOrAfter"); bad {
			expectErr = append(expectErr, e)
			scDefect = true
		} else if b.DeltaNs <= 0 { // now >= NotOnOrAfter
			expired = true
		}
	}
	if expired {
		expectErr = append(expectErr, ErrSpec{Type: "ErrInvalidValue", Key: "NotOnOrAfter", Reason: "Expired"})
	}
	wantInvalid := false
	if !expired && !scDefect {
		if c.NoCond {
			expectErr = append(expectErr, ErrSpec{Type: "ErrMissingElement", Tag: "Conditions"})
		} else {
			if e, bad := parseDefect(c.NB, "Conditions", "NotBefore"); bad {
				expectErr = append(expectErr, e)
			}
			if e, bad := parseDefect(c.CN, "Conditions", "NotOnOrAfter"); bad {
				expectErr = append(expectErr, e)
			}
		}
		wantInvalid = c.NB.DeltaNs > 0 || c.CN.DeltaNs <= 0
	}

	info, err := newSP().RetrieveAssertionInfo(c.Encoded)
	equalitySC, equalityCN := false, c.CN.Defect == "" && c.CN.DeltaNs == 0
	for _, b := range c.SC {
		if b.Defect == "" && b.DeltaNs == 0 {
			equalitySC = true
		}
	}
	if len(expectErr) > 0 {
		if err == nil {
			sig := "bad-bound-accepted"
			if expired && !scDefect {
				sig = "expired-accepted"
				onlyEq := true
				for _, b := range c.SC {
					if b.Defect == "" && b.DeltaNs < 0 {
						onlyEq = false
					}
				}
				if equalitySC && onlyEq {
					sig = "expired-accepted/now-equals-NotOnOrAfter"
				}
			}
			o.Violation = h.V(sig, "accepted although the model requires one of %+v (sc=%+v nb=%+v cn=%+v noCond=%v)", expectErr, c.SC, c.NB, c.CN, c.NoCond)
			return o
		}
		got := specOf(err)
		ok := false
		for _, e := range expectErr {
			if specMatch(e, got) {
				ok = true
			}
		}
		if !ok {
			o.Violation = h.V("wrong-error", "expected one of %+v, got %+v (%v)", expectErr, got, err)
		}
		return o
	}
	if err != nil {
		o.Violation = h.V("valid-rejected", "rejected although every bound is well-formed and no subject confirmation is expired: %v (sc=%+v)", err, c.SC)
		return o
	}
	if info.WarningInfo == nil {
		o.Violation = h.V("nil-warninginfo", "accepted without WarningInfo")
		return o
	}
	if info.WarningInfo.InvalidTime != wantInvalid {
		sig := "invalidtime-mismatch"
		if equalityCN && c.NB.DeltaNs <= 0 {
			sig = "invalidtime-mismatch/now-equals-Conditions-NotOnOrAfter"
		}
		o.Violation = h.V(sig, "InvalidTime=%v want %v (nb=%+v cn=%+v)", info.WarningInfo.InvalidTime, wantInvalid, c.NB, c.CN)
	}
	return o
}

// C05Steps: ONE long-lived service provider whose clock is moved between validations — forwards, backwards (NTP
// step, VM resume), by re-assigning the Clock field or by resetting the very same Clock object. Every decision is
// taken at the instant the clock shows at that call, whatever it showed before.
type C05Steps struct {
	Steps     []C05Case `json:"steps"`
	SameClock bool      `json:"sameClock"` // the Clock object stays, its reading is changed in place
}

func genC05Steps(t *rapid.T) C05Steps {
	q := C05Steps{SameClock: rapid.IntRange(0, 2).Draw(t, "sameClockObject") != 0}
	n := rapid.IntRange(2, 4).Draw(t, "steps")
	for i := 0; i < n; i++ {
		c := genC05(t)
		for c.SP.NilClock {
			c = genC05(t)
		}
		if i > 0 {
			// the same message again at another instant (so that only the clock differs), two times in three
			if rapid.IntRange(0, 2).Draw(t, "sameMessage") != 0 {
				prev := q.Steps[i-1]
				shift := rapid.SampledFrom([]int64{-int64(time.Hour), -int64(time.Second), -1, 1, int64(time.Second), int64(time.Hour), -int64(26 * time.Hour), int64(26 * time.Hour)}).Draw(t, "clockShift")
				c = prev
				c.SP.NowUnixNano += shift
				c.SC = append([]Bound{}, prev.SC...)
				mv := func(b Bound) Bound {
					if b.DeltaNs > -(1<<61) && b.DeltaNs < 1<<61 {
						b.DeltaNs -= shift
					}
					return b
				}
				for j := range c.SC {
					c.SC[j] = mv(c.SC[j])
				}
				c.NB, c.CN = mv(c.NB), mv(c.CN)
				c.Boundary = true
			}
		}
		q.Steps = append(q.Steps, c)
	}
	return q
}

func checkC05Steps(q C05Steps) h.Outcome {
	o := h.Outcome{NonTrivial: true, Classes: []string{fmt.Sprintf("sameClock:%v", q.SameClock)}}
	sp := q.Steps[0].SP.Build()
	for i, c := range q.Steps {
		if i > 0 {
			switch {
			case q.Steps[i].SP.NowUnixNano < q.Steps[i-1].SP.NowUnixNano:
				o.Classes = append(o.Classes, "clock:backwards")
			default:
				o.Classes = append(o.Classes, "clock:forwards")
			}
		}
		if q.SameClock {
			*sp.Clock = *dsig.NewFakeClockAt(c.SP.Now())
		} else {
			sp.Clock = dsig.NewFakeClockAt(c.SP.Now())
		}
		sp.SkipSignatureValidation = c.SP.Skip
		so := judgeC05(c, func() *saml2.SAMLServiceProvider { return sp })
		if so.Violation != nil {
			so.Violation.Sig = "moved-clock/" + so.Violation.Sig
			so.Violation.Detail = fmt.Sprintf("step %d of %d on a long-lived service provider whose clock was moved (same Clock object: %v): %s", i+1, len(q.Steps), q.SameClock, so.Violation.Detail)
			o.Violation = so.Violation
			return o
		}
	}
	o.Classes = dedup(o.Classes)
	return o
}

func TestC05_PSteps(t *testing.T)      { h.RunProp(t, "C05.steps", genC05Steps, checkC05Steps) }
func TestC05_ReplaySteps(t *testing.T) { h.RunReplay(t, "C05.steps", checkC05Steps) }

func TestC05(t *testing.T)        { h.RunProp(t, "C05", genC05, checkC05) }
func TestC05_Replay(t *testing.T) { h.RunReplay(t, "C05", checkC05) }

// TestC05_Grid enumerates the 7x7x7 boundary grid for one assertion (every ordering and
// equality of clock, NotBefore, Conditions NotOnOrAfter, subject-confirmation NotOnOrAfter)
// and the 7x7 grid over two assertions' subject confirmations.
func TestC05_Grid(t *testing.T) {
	var cases []C05Case
	mk := func(mode string, sc []int64, nb, cn int64, variant int) {
		sp := h.BaseSP()
		sp.NowUnixNano += int64(variant) * 123456789 // sub-second clock too
		c := C05Case{SP: sp, Mode: mode, Cond: []string{"", "foreign-aud", "match+foreign", "otu+proxy", "foreign+match", "all", ""}[len(cases)%7], Session: []string{"", "past", "equal", "future", "past-far"}[len(cases)%5]}
		if mode == "skip" {
			c.SP.Skip = true
		}
		now := sp.Now()
		rnd := func(d int64, k int) Bound {
			at := now.Add(time.Duration(d))
			offs := []int{0, 330, -480}
			return Bound{DeltaNs: d, Text: h.RenderTime(at, offs[(k+variant)%3], (k+variant)%2 == 0, 9)}
		}
		for i, d := range sc {
			c.SC = append(c.SC, rnd(d, i))
		}
		c.NB, c.CN = rnd(nb, 1), rnd(cn, 2)
		finishC05(&c, func(err error) { t.Fatalf("harness: %v", err) })
		cases = append(cases, c)
	}
	modes := []string{"response", "assertions", "skip"}
	v := 0
	for _, d := range deltaGrid {
		for _, nb := range deltaGrid {
			for _, cn := range deltaGrid {
				v++
				mk(modes[v%3], []int64{d}, nb, cn, v%2)
			}
		}
	}
	for _, d1 := range deltaGrid {
		for _, d2 := range deltaGrid {
			v++
			mk(modes[v%3], []int64{d1, d2}, -int64(time.Hour), int64(time.Hour), v%2)
			mk(modes[v%3], []int64{int64(time.Hour), d1, d2}, -int64(time.Hour), int64(time.Hour), v%2)
		}
	}
	// far-future / far-past bounds crossed with every ordering of the other two
	far, ago := Bound{DeltaNs: 1 << 62, Text: "9999-12-31T23:59:59Z"}, Bound{DeltaNs: -(1 << 62), Text: "0001-01-01T00:00:00Z"}
	for _, d := range []int64{-int64(time.Second), -1, 0, 1, int64(time.Second)} {
		for _, combo := range [][3]int{{0, 1, 2}, {1, 0, 2}, {1, 2, 0}, {2, 1, 0}} {
			sp := h.BaseSP()
			c := C05Case{SP: sp, Mode: "response"}
			near := Bound{DeltaNs: d, Text: h.RenderTime(sp.Now().Add(time.Duration(d)), 0, true, 9)}
			b := [3]Bound{near, far, ago}
			c.SC = []Bound{{DeltaNs: 1 << 62, Text: "9999-12-31T23:59:59Z"}}
			c.NB, c.CN = b[combo[0]], b[combo[1]]
			if combo[2] == 0 {
				c.SC = []Bound{{DeltaNs: int64(time.Hour), Text: h.RenderTime(sp.Now().Add(time.Hour), 0, true, 0)}}
			}
			finishC05(&c, func(err error) { t.Fatalf("harness: %v", err) })
			cases = append(cases, c)
		}
	}
	h.RunCases(t, "C05", cases, checkC05)
}
