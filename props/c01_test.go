package props

import (
	"bytes"
	"compress/flate"
	"io"
	"testing"

	"pgregory.net/rapid"

	h "verif/harness"
)

// C01 — accepted SSO assertions are always IdP-signed: no forgery, wrapping or swapping.

func inflate(b []byte) ([]byte, error) {
	return io.ReadAll(io.LimitReader(flate.NewReader(bytes.NewReader(b)), 64<<20))
}

func genC01(t *rapid.T) AttackCase { return genAttackCase(t, attackOpts{}) }

func checkC01(c AttackCase) h.Outcome {
	o := h.Outcome{}
	c.classes(&o)
	if c.SP.Skip {
		o.Violation = h.V("harness/skip-in-c01", "C01 precondition is signature validation enabled")
		return o
	}
	if v := c.judgeSSO(&o); v != nil {
		o.Violation = v
		return o
	}
	if v := c.judgeLogout(&o); v != nil {
		o.Violation = v
	}
	o.Classes = dedup(o.Classes)
	return o
}

func TestC01(t *testing.T)        { h.RunProp(t, "C01", genC01, checkC01) }
func TestC01_Replay(t *testing.T) { h.RunReplay(t, "C01", checkC01) }
