package props

import (
	"bytes"
	"compress/flate"
	"errors"
	"fmt"
	"io"
	"testing"

	saml2 "github.com/russellhaering/gosaml2"
	"pgregory.net/rapid"

	h "verif/harness"
)

// C01 — accepted SSO assertions are always IdP-signed: no forgery, wrapping or swapping.

func inflate(b []byte) ([]byte, error) {
	return io.ReadAll(io.LimitReader(flate.NewReader(bytes.NewReader(b)), 64<<20))
}

func genC01(t *rapid.T) AttackCase { return genAttackCase(t, attackOpts{}) }

func checkC01(c AttackCase) h.Outcome {
	o := h.Outcome{}
	c.classes(&o)
	if c.SP.Skip {
		o.Violation = h.V("harness/skip-in-c01", "C01 precondition is signature validation enabled")
		return o
	}
	if v := c.judgeSSO(&o); v != nil {
		o.Violation = v
		return o
	}
	if v := c.judgeLogout(&o); v != nil {
		o.Violation = v
	}
	o.Classes = dedup(o.Classes)
	return o
}

func TestC01(t *testing.T)        { h.RunProp(t, "C01", genC01, checkC01) }
func TestC01_Replay(t *testing.T) { h.RunReplay(t, "C01", checkC01) }

// C01Seq: ONE long-lived service provider (same clock object) whose certificate store is replaced between
// 2..3 attacker cases — key roll-over, per-tenant swap. The provenance oracle of every step uses the store
// in force at that step: a message signed with a key that has just been retired must no longer be accepted.
// With Dyn the store is a custom implementation that lives as long as the service provider: its ANSWER changes
// (metadata refresh) and, at steps flagged in Errs, it fails (metadata endpoint down): nothing is trusted then.
type C01Seq struct {
	Steps []AttackCase `json:"steps"`
	Dyn   bool         `json:"dyn,omitempty"`
	Errs  []bool       `json:"errs,omitempty"`
}

func genC01Seq(t *rapid.T) C01Seq {
	var q C01Seq
	n := rapid.IntRange(2, 3).Draw(t, "steps")
	for i := 0; i < n; i++ {
		c := genAttackCase(t, attackOpts{maxOps: 2, opKinds: []string{"edit-text", "strip-sig", "dup-el", "splice", "forge-assertion", "resign", "comment-trick"}})
		if i > 0 {
			// same SP apart from the store
			keep := c.SP.Store
			c.SP = q.Steps[0].SP
			c.SP.Store = keep
			if err := c.build(); err != nil {
				t.Fatalf("harness: %v", err)
			}
		}
		q.Steps = append(q.Steps, c)
	}
	if q.Dyn = rapid.Bool().Draw(t, "dynStore"); q.Dyn {
		for i := range q.Steps {
			q.Errs = append(q.Errs, i > 0 && rapid.IntRange(0, 2).Draw(t, "storeFails") == 0)
		}
	}
	return q
}

func checkC01Seq(q C01Seq) h.Outcome {
	o := h.Outcome{NonTrivial: true, Classes: []string{"seq"}}
	first := q.Steps[0].SP
	first.DynStore = q.Dyn
	sp := first.Build()
	for i := range q.Steps {
		c := q.Steps[i]
		if q.Dyn {
			var err error
			if q.Errs[i] {
				err = errors.New("metadata endpoint unreachable")
				c.SP.Store = nil // the oracle: nothing vouches
				o.Classes = append(o.Classes, "store-fails")
			}
			sp.IDPCertificateStore.(*h.DynStore).Set(c.SP.Store, err)
			o.Classes = append(o.Classes, "dyn-store")
		} else {
			sp.IDPCertificateStore = h.Store(c.SP.Store)
		}
		c.spFn = func() *saml2.SAMLServiceProvider { return sp }
		so := h.Outcome{}
		v := c.judgeSSO(&so)
		if v == nil {
			v = c.judgeLogout(&so)
		}
		o.Classes = append(o.Classes, so.Classes...)
		if v != nil {
			v.Sig = "reused-sp/" + v.Sig
			v.Detail = "step " + string(rune('1'+i)) + " on a long-lived service provider whose store was replaced: " + v.Detail
			o.Violation = v
			return o
		}
	}
	o.Classes = dedup(o.Classes)
	return o
}

func TestC01_PSeq(t *testing.T)      { h.RunProp(t, "C01.seq", genC01Seq, checkC01Seq) }
func TestC01_ReplaySeq(t *testing.T) { h.RunReplay(t, "C01.seq", checkC01Seq) }

// TestC01_GridBig: genuine signed assertions of 100..1200 elements (plain or encrypted) in an unsigned Response,
// with a forged assertion placed by every forge variant. Large trees meet the signature library's traversal
// budget; whatever happens then, nothing unsigned may ride along.
func TestC01_GridBig(t *testing.T) {
	var cases []AttackCase
	for _, n := range []int{100, 480, 520, 700, 990, 1200} {
		for ei, enc := range []bool{false, true} {
			for variant := 0; variant <= 10; variant++ {
				if n >= 700 && variant%3 != 1 && variant != 7 {
					continue // the big ones are slow to sign: sibling-after / appended only, plus one in three
				}
				sp := h.BaseSP()
				sp.Store = []h.CertRef{{Key: "T1", Window: "wide"}}
				sp.Enc = h.KeyCfg{Mode: "tls", Field: h.CertRef{Key: "E1", Window: "wide"}}
				g := gridGenuine(sp, 1, "assertions")
				vals := make([]string, n)
				for i := range vals {
					vals[i] = fmt.Sprintf("group-%d", i)
				}
				g.Model.Assertions[0].Attrs = []h.AttrModel{{Name: "groups", Values: vals}}
				if enc {
					g.Enc = []*h.EncSpec{{DataAlg: h.DataAlgs[(variant+ei)%len(h.DataAlgs)], Transport: h.Transports[variant%3], Digest: "-", To: h.CertRef{Key: "E1", Window: "wide"}}}
					e := g.Enc[0]
					e.Key = make([]byte, h.KeyLen(e.DataAlg))
					e.IV = make([]byte, map[bool]int{true: 12, false: 16}[h.IsGCM(e.DataAlg)])
				}
				c := AttackCase{SP: sp, Pool: []*h.Genuine{g}, Ops: []h.Op{{Kind: "forge-assertion", A: 0, B: 2, C: variant, S: "admin@evil.example"}}}
				if enc && variant%2 == 0 {
					// the forged one encrypted to the SP as well (anyone can)
					c.Ops = append(c.Ops, h.Op{Kind: "encrypt", A: 0, B: 0, C: variant})
				}
				if err := c.build(); err != nil {
					t.Fatalf("harness: %v", err)
				}
				cases = append(cases, c)
			}
		}
	}
	h.RunCases(t, "C01", cases, checkC01)
}

// TestC01_GridXmlnsField: an unused namespace declaration whose PREFIX is the name of an attribute the decoders read
// (xmlns:IssueInstant, xmlns:Version, ...) added after signing — to the Response element or to the assertion, in
// front of or behind the real attributes — for every signature placement and canonicalisation. Exclusive
// canonicalisation neither covers nor keeps such a declaration; whatever is returned is still what was signed.
func TestC01_GridXmlnsField(t *testing.T) {
	var cases []AttackCase
	for _, placement := range []string{"response", "assertions", "both"} {
		for ci, c14n := range h.C14Ns {
			for b := 11; b < 22; b++ {
				for target := 1; target <= 2; target++ {
					for a := 0; a < 4; a++ {
						sp := h.BaseSP()
						sp.Store = []h.CertRef{{Key: "T1", Window: "wide"}}
						g := gridGenuine(sp, 1+(a+ci)%2, placement)
						for _, sg := range append([]*h.SignSpec{g.RespSig}, g.AsrtSig...) {
							if sg != nil {
								sg.C14N = c14n
							}
						}
						c := AttackCase{SP: sp, Pool: []*h.Genuine{g}, Ops: []h.Op{{Kind: "add-attr", A: a + 2*b, B: b, C: target}}}
						if err := c.build(); err != nil {
							t.Fatalf("harness: %v", err)
						}
						cases = append(cases, c)
					}
				}
			}
		}
	}
	h.RunCases(t, "C01", cases, checkC01)
}
