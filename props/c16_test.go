package props

import (
	"bytes"
	"encoding/base64"
	"fmt"
	"net/url"
	"sort"
	"strings"
	"testing"

	"github.com/beevik/etree"
	"golang.org/x/net/html"
	"pgregory.net/rapid"

	h "verif/harness"
)

// C16 — POST-binding forms deliver message and relay state intact; no HTML injection.

type C16Case struct {
	SP      h.SPConfig `json:"sp"`
	Flow    string     `json:"flow"` // BuildAuthBodyPost | BuildAuthBodyPostFromDocument | BuildLogoutBodyPostFromDocument | BuildLogoutResponseBodyPostFromDocument
	Relay   string     `json:"relay"`
	DocKind string     `json:"docKind"`
	DocXML  string     `json:"docXML"`
	URL     string     `json:"url"`
}

var hostileRelay = []string{
	`"`, `'`, `<`, `>`, `&`, `"><script>alert(1)</script>`, `</script><script>alert(1)</script>`, `-->`, `<!--`, `javascript:alert(1)`, `" onmouseover="x`, `' autofocus onfocus='x`,
	"\n", "\r\n", "a\rb", "\t", `&quot;`, `&#34;`, `&amp;lt;`, `\`, "`", `{{.URL}}`, `</form>`, `<input name="RelayState" value="evil">`, "é", "日本語", "😀", " ", `]]>`, `%22`, `+`, `=`,
}

func genHTMLRelay(t *rapid.T) string {
	switch rapid.IntRange(0, 5).Draw(t, "relayKind") {
	case 0:
		return ""
	case 5:
		// a string constant of the implementation (template text, placeholder, field name), alone or embedded
		if d := h.CodeLiterals(); len(d) > 0 {
			v := d[rapid.IntRange(0, len(d)-1).Draw(t, "relayLiteral")]
			return rapid.SampledFrom([]string{"", "x", "https://sp.example.com/?next="}).Draw(t, "relayPre") + v + rapid.SampledFrom([]string{"", "y", "&"}).Draw(t, "relayPost")
		}
		return "x"
	case 1:
		return h.GenText(h.TextOpts{MaxLen: 6}).Draw(t, "relayText")
	}
	n := rapid.IntRange(1, 5).Draw(t, "relayPieces")
	var sb strings.Builder
	for i := 0; i < n; i++ {
		sb.WriteString(rapid.SampledFrom(hostileRelay).Draw(t, "relayPiece"))
	}
	return sb.String()
}

func genC16(t *rapid.T) C16Case {
	oc := genOutCase(t, false)
	c14 := genC14(t) // reuse the URL generator (normalised absolute http(s) URLs with queries, ports and escapes)
	c := C16Case{SP: oc.SP, URL: c14.fullURL()}
	if i := strings.Index(c.URL, "#"); i >= 0 {
		c.URL = c.URL[:i]
	}
	c.Flow = rapid.SampledFrom([]string{"BuildAuthBodyPost", "BuildAuthBodyPostFromDocument", "BuildLogoutBodyPostFromDocument", "BuildLogoutResponseBodyPostFromDocument"}).Draw(t, "flow")
	c.SP.IdPSSO, c.SP.IdPSLO = "https://unused.example/sso?x=1", "https://unused.example/slo"
	if strings.HasPrefix(c.Flow, "BuildAuth") {
		c.SP.IdPSSO = c.URL
	} else {
		c.SP.IdPSLO = c.URL
	}
	c.Relay = genHTMLRelay(t)
	if c.Relay != "" && rapid.IntRange(0, 5).Draw(t, "relayInEndpoint") == 0 {
		// the configured endpoint already carries a parameter (named like a binding field) whose value IS the relay
		// state of this call: two independently configured values that happen to be equal
		sep := "?"
		if strings.Contains(c.URL, "?") {
			sep = "&"
		}
		c.URL += sep + rapid.SampledFrom([]string{"RelayState", "RelayState", "SAMLRequest", "SAMLResponse", "target"}).Draw(t, "endpointParam") + "=" + url.QueryEscape(c.Relay)
		if strings.HasPrefix(c.Flow, "BuildAuth") {
			c.SP.IdPSSO = c.URL
		} else {
			c.SP.IdPSLO = c.URL
		}
	}
	c.DocKind = "sp-built"
	if c.Flow != "BuildAuthBodyPost" {
		switch rapid.IntRange(0, 5).Draw(t, "arbitraryDoc") {
		case 0, 1:
			c.DocKind, c.DocXML = "arbitrary", genArbitraryDoc(t)
		case 2:
			// built (and signed, when there is a key) by a service provider that still has the PREVIOUS IdP endpoints
			c.DocKind = "other-sp"
		}
	}
	if _, ok := expectedSigner(c.SP); !ok {
		c.SP.SignRequests = false
	}
	if rapid.IntRange(0, 5).Draw(t, "manyContexts") == 0 {
		// a long RequestedAuthnContext list: the AuthnRequest grows beyond 4 / 8 / 32 KiB
		k := rapid.SampledFrom([]int{40, 90, 400}).Draw(t, "nContextsLarge")
		rac := &h.RAC{Comparison: "exact"}
		for i := 0; i < k; i++ {
			rac.Contexts = append(rac.Contexts, fmt.Sprintf("urn:oasis:names:tc:SAML:2.0:ac:classes:Custom%04d", i))
		}
		c.SP.RAC = rac
	}
	return c
}

type pageFacts struct {
	names   []string // sorted multiset of element names
	scripts []string
	forms   []*html.Node
	inputs  map[string][]string // name -> values (hidden inputs)
	types   map[string]string
	submit  int
}

func attrOf(n *html.Node, k string) (string, bool) {
	for _, a := range n.Attr {
		if a.Key == k {
			return a.Val, true
		}
	}
	return "", false
}

func readPage(body []byte) (*pageFacts, error) {
	root, err := html.Parse(bytes.NewReader(body))
	if err != nil {
		return nil, err
	}
	p := &pageFacts{inputs: map[string][]string{}, types: map[string]string{}}
	var walk func(n *html.Node, inForm *html.Node)
	walk = func(n *html.Node, inForm *html.Node) {
		if n.Type == html.ElementNode {
			p.names = append(p.names, n.Data)
			switch n.Data {
			case "form":
				p.forms = append(p.forms, n)
				inForm = n
			case "script":
				var sb strings.Builder
				for c := n.FirstChild; c != nil; c = c.NextSibling {
					if c.Type == html.TextNode {
						sb.WriteString(c.Data)
					}
				}
				p.scripts = append(p.scripts, sb.String())
			case "input":
				typ, _ := attrOf(n, "type")
				name, hasName := attrOf(n, "name")
				val, _ := attrOf(n, "value")
				if strings.EqualFold(typ, "submit") {
					p.submit++
				} else if hasName {
					if inForm == nil {
						name = "!outside-form:" + name
					}
					p.inputs[name] = append(p.inputs[name], val)
					p.types[name] = strings.ToLower(typ)
				}
			}
		}
		for c := n.FirstChild; c != nil; c = c.NextSibling {
			walk(c, inForm)
		}
	}
	walk(root, nil)
	sort.Strings(p.names)
	return p, nil
}

func normNL(s string) string {
	return strings.ReplaceAll(strings.ReplaceAll(s, "\r\n", "\n"), "\r", "\n")
}

func (c *C16Case) build(relay string) ([]byte, []byte, error) {
	render := c.SP.Build()
	sp := render // the instance that builds the document
	if c.DocKind == "other-sp" {
		o := c.SP
		o.IdPSSO, o.IdPSLO = "https://previous-idp.example.org/sso?old=1", "https://previous-idp.example.org/slo"
		sp = o.Build()
	}
	var doc *etree.Document
	var err error
	switch {
	case c.Flow == "BuildAuthBodyPost":
		b, err := sp.BuildAuthBodyPost(relay)
		return b, nil, err
	case c.DocKind == "arbitrary":
		doc = etree.NewDocument()
		err = doc.ReadFromString(c.DocXML)
	case c.Flow == "BuildAuthBodyPostFromDocument":
		doc, err = sp.BuildAuthRequestDocument()
	case c.Flow == "BuildLogoutBodyPostFromDocument":
		if _, ok := expectedSigner(c.SP); ok {
			doc, err = sp.BuildLogoutRequestDocument("user@example.com", "_s")
		} else {
			doc, err = sp.BuildLogoutRequestDocumentNoSig("user@example.com", "_s")
		}
	default:
		if _, ok := expectedSigner(c.SP); ok {
			doc, err = sp.BuildLogoutResponseDocument("urn:oasis:names:tc:SAML:2.0:status:Success", "_req")
		} else {
			doc, err = sp.BuildLogoutResponseDocumentNoSig("urn:oasis:names:tc:SAML:2.0:status:Success", "_req")
		}
	}
	if err != nil {
		return nil, nil, err
	}
	want, _ := doc.WriteToBytes()
	var body []byte
	switch c.Flow {
	case "BuildAuthBodyPostFromDocument":
		body, err = render.BuildAuthBodyPostFromDocument(relay, doc)
	case "BuildLogoutBodyPostFromDocument":
		body, err = render.BuildLogoutBodyPostFromDocument(relay, doc)
	default:
		body, err = render.BuildLogoutResponseBodyPostFromDocument(relay, doc)
	}
	return body, want, err
}

func checkC16(c C16Case) h.Outcome {
	o := h.Outcome{}
	o.NonTrivial = strings.ContainsAny(c.Relay, `"'<>&`) || strings.Contains(c.Relay, "-->") || strings.Contains(strings.ToLower(c.Relay), "script")
	if len(c.DocXML) > 4096 || (c.SP.RAC != nil && len(c.SP.RAC.Contexts) >= 40) {
		o.Classes = append(o.Classes, "doc:large")
	}
	o.Classes = append(o.Classes, "flow:"+c.Flow, "doc:"+c.DocKind, fmt.Sprintf("relayEmpty:%v", c.Relay == ""), fmt.Sprintf("relayHostile:%v", o.NonTrivial), fmt.Sprintf("urlHasQuery:%v", strings.Contains(c.URL, "?")))
	if strings.ContainsAny(c.Relay, "\r\n") {
		o.Classes = append(o.Classes, "relay:newline")
	}
	body, wantDoc, err := c.build(c.Relay)
	if err != nil {
		o.Violation = h.V("build-error/"+c.Flow, "%v", err)
		return o
	}
	p, err := readPage(body)
	if err != nil {
		o.Violation = h.V("html-unparsable", "%v", err)
		return o
	}
	if len(p.forms) != 1 {
		o.Violation = h.V("form-count", "%d form elements", len(p.forms))
		return o
	}
	f := p.forms[0]
	if m, _ := attrOf(f, "method"); !strings.EqualFold(m, "post") {
		o.Violation = h.V("form-method", "method %q", m)
		return o
	}
	if a, _ := attrOf(f, "action"); a != c.URL {
		o.Violation = h.V("form-action/"+c.Flow, "action %q, configured endpoint %q", a, c.URL)
		return o
	}
	field := "SAMLRequest"
	if c.Flow == "BuildLogoutResponseBodyPostFromDocument" {
		field = "SAMLResponse"
	}
	wantFields := []string{field}
	if c.Relay != "" {
		wantFields = append(wantFields, "RelayState")
	}
	var gotFields []string
	for k, vs := range p.inputs {
		for range vs {
			gotFields = append(gotFields, k)
		}
	}
	sort.Strings(gotFields)
	sort.Strings(wantFields)
	if strings.Join(gotFields, ",") != strings.Join(wantFields, ",") {
		o.Violation = h.V("form-fields", "form fields %v, want %v", gotFields, wantFields)
		return o
	}
	docBytes, err := base64.StdEncoding.DecodeString(p.inputs[field][0])
	if err != nil {
		o.Violation = h.V("field-base64", "%s is not base64: %v", field, err)
		return o
	}
	if wantDoc != nil && !bytes.Equal(docBytes, wantDoc) {
		o.Violation = h.V("document-differs", "%s does not decode to the document supplied", field)
		return o
	}
	if wantDoc == nil {
		d, perr := h.RecipientParse(docBytes)
		if perr != nil || d.Root().Tag != "AuthnRequest" || d.Root().SelectAttrValue("Destination", "\x00") != c.SP.IdPSSO {
			o.Violation = h.V("document-not-authnrequest", "BuildAuthBodyPost field is not this SP's AuthnRequest (%v)", perr)
			return o
		}
	}
	if c.Relay != "" {
		if got := p.inputs["RelayState"][0]; got != normNL(c.Relay) {
			o.Violation = h.V("relaystate-differs", "RelayState field %q, given %q", got, c.Relay)
			return o
		}
	}
	// auto-submit: some script submits a form (how the form is addressed is the implementation's business)
	id, _ := attrOf(f, "id")
	auto := false
	for _, s := range p.scripts {
		if strings.Contains(s, ".submit()") {
			auto = true
		}
	}
	if !auto {
		o.Violation = h.V("not-auto-submitting", "no script submits form %q", id)
		return o
	}
	// structure independent of relay state and document content: compare with a benign build of the same shape
	benign := "x"
	if c.Relay == "" {
		benign = ""
	}
	snapshot := string(body)
	body2, _, err := c.build(benign)
	if err != nil {
		o.Violation = h.V("build-error/"+c.Flow, "%v", err)
		return o
	}
	if string(body) != snapshot {
		o.Violation = h.V("page-modified-by-later-call/"+c.Flow, "the page returned for relay state %q changed when the next page was built (it no longer delivers its message and relay state)", c.Relay)
		return o
	}
	p2, err := readPage(body2)
	if err != nil {
		o.Violation = h.V("html-unparsable", "benign twin: %v", err)
		return o
	}
	if strings.Join(p.names, ",") != strings.Join(p2.names, ",") || strings.Join(p.scripts, "\x00") != strings.Join(p2.scripts, "\x00") {
		o.Violation = h.V("structure-depends-on-input", "element multiset / scripts differ from the benign twin: %v vs %v", p.names, p2.names)
	}
	return o
}

func TestC16(t *testing.T)        { h.RunProp(t, "C16", genC16, checkC16) }
func TestC16_Replay(t *testing.T) { h.RunReplay(t, "C16", checkC16) }

// TestC16_Grid: every hostile constant as relay state through every builder.
func TestC16_Grid(t *testing.T) {
	var cases []C16Case
	for _, flow := range []string{"BuildAuthBodyPost", "BuildAuthBodyPostFromDocument", "BuildLogoutBodyPostFromDocument", "BuildLogoutResponseBodyPostFromDocument"} {
		for i, r := range append([]string{""}, hostileRelay...) {
			sp := h.BaseSP()
			sp.Enc = h.KeyCfg{Mode: "tls", Field: h.CertRef{Key: "E1", Window: "wide"}}
			sp.SignRequests = i%2 == 0
			c := C16Case{SP: sp, Flow: flow, Relay: r, DocKind: "sp-built", URL: "https://idp.example.com:8443/sso?tenant=a%20b&x=1"}
			if strings.HasPrefix(flow, "BuildAuth") {
				c.SP.IdPSSO = c.URL
			} else {
				c.SP.IdPSLO = c.URL
			}
			cases = append(cases, c)
		}
	}
	// every string constant of the implementation as relay state (alone and embedded), flows in rotation
	flows := []string{"BuildAuthBodyPost", "BuildAuthBodyPostFromDocument", "BuildLogoutBodyPostFromDocument", "BuildLogoutResponseBodyPostFromDocument"}
	for i, lit := range h.CodeLiterals() {
		for j, r := range []string{lit, "a" + lit + "b"} {
			sp := h.BaseSP()
			sp.Enc = h.KeyCfg{Mode: "tls", Field: h.CertRef{Key: "E1", Window: "wide"}}
			sp.SignRequests = i%4 == 0
			c := C16Case{SP: sp, Flow: flows[(i+j)%4], Relay: r, DocKind: "sp-built", URL: "https://idp.example.com/sso"}
			if strings.HasPrefix(c.Flow, "BuildAuth") {
				c.SP.IdPSSO = c.URL
			} else {
				c.SP.IdPSLO = c.URL
			}
			cases = append(cases, c)
		}
	}
	h.RunCases(t, "C16", cases, checkC16)
}
