package props

import (
	"crypto/rsa"
	"crypto/sha256"
	"encoding/base64"
	"encoding/json"
	"encoding/xml"
	"fmt"
	"reflect"
	"regexp"
	"runtime"
	"strings"
	"sync"
	"sync/atomic"
	"testing"
	"time"

	"github.com/beevik/etree"
	saml2 "github.com/russellhaering/gosaml2"
	"github.com/russellhaering/gosaml2/types"
	dsig "github.com/russellhaering/goxmldsig"
	"pgregory.net/rapid"

	h "verif/harness"
)

// C17 — a configured service provider is goroutine-safe; calls are isolated and pure.

// C17Op is one public operation with its arguments; Inputs are indexes into a fixed pool of encoded messages.
type C17Op struct {
	Kind  string `json:"kind"`
	Input int    `json:"input"`
	Arg   string `json:"arg"`
	Mut   bool   `json:"mut"` // mutate the returned result afterwards
}

type C17Case struct {
	SP  h.SPConfig `json:"sp"`
	Ops [][]C17Op  `json:"ops"` // one list per goroutine (a single list for the sequential part)
	Seq bool       `json:"seq"`
}

var c17OpKinds = []string{"authn-doc", "authn-str", "logout-req", "logout-resp", "auth-url", "auth-url-redirect", "logout-url", "auth-post", "auth-post-doc", "logout-post", "logout-resp-post", "metadata", "metadata-slo",
	"validate", "retrieve", "logout-validate-req", "logout-validate-resp", "decode-base", "decode-logout", "signing-cert", "sign-el",
	// builders handed ONE caller-made document shared by every call of the case (they only read it)
	"shared-auth-url", "shared-logout-url", "shared-auth-post", "shared-serialize"}

// newSharedDoc: a document the caller parsed itself (etree default write settings, not the canonical ones the
// library's own documents carry) whose text and attribute values serialise differently under the two settings.
func newSharedDoc() *etree.Document {
	d := etree.NewDocument()
	if err := d.ReadFromString(`<samlp:AuthnRequest xmlns:samlp="urn:oasis:names:tc:SAML:2.0:protocol" ID="_shared" Version="2.0"><x a="1&gt;2 'q'">it's "quoted" &amp; more</x></samlp:AuthnRequest>`); err != nil {
		panic(err)
	}
	return d
}

var c17InputsOnce sync.Once
var c17Inputs []string

// c17Pool: genuine (signed, encrypted), forged and garbage inputs, rendered once for the base SP.
// c17DigestInputs: pool indexes of the encrypted messages with an explicit key-transport digest.
var c17DigestInputs []int

func c17Pool() []string {
	c17InputsOnce.Do(func() {
		sp := c17SP(0)
		add := func(g *h.Genuine) {
			_, enc, _, err := g.Render()
			if err != nil {
				panic(err)
			}
			c17Inputs = append(c17Inputs, enc)
		}
		for _, mode := range []string{"response", "assertions", "both"} {
			add(gridGenuine(sp, 2, mode))
		}
		g := gridGenuine(sp, 1, "assertions")
		g.Enc = []*h.EncSpec{{DataAlg: h.DataAlgs[0], Transport: h.Transports[0], Digest: "-", To: h.CertRef{Key: "E1", Window: "wide"}, Key: make([]byte, 16), IV: make([]byte, 12)}}
		add(g)
		forged := gridGenuine(sp, 1, "response")
		forged.RespSig = h.DefaultSign("A")
		add(forged)
		add(gridGenuine(sp, 1, "none"))
		for _, kind := range []string{"LogoutRequest", "LogoutResponse"} {
			for _, key := range []string{"T1", "A", ""} {
				li := &h.LogoutIssue{Model: h.PlainLogout(sp, kind), NS: h.NSStyle{P: "samlp", A: "saml"}}
				if key != "" {
					li.Sig = h.DefaultSign(key)
				}
				_, enc, err := li.Render()
				if err != nil {
					panic(err)
				}
				c17Inputs = append(c17Inputs, enc)
			}
		}
		// messages that are genuine under OTHER configurations the re-configuration check switches to
		for _, alt := range []struct {
			at  string
			win string
		}{{"2000-06-01T00:00:00Z", "past"}, {"2030-03-01T12:00:00Z", "narrow"}} {
			asp := sp
			at, _ := time.Parse(time.RFC3339, alt.at)
			asp.NowUnixNano = at.UnixNano()
			for _, mode := range []string{"response", "assertions"} {
				g := gridGenuine(asp, 1, mode)
				sig := h.DefaultSign("T1")
				sig.Signer, sig.Embed = h.CertRef{Key: "T1", Window: alt.win}, &h.CertRef{Key: "T1", Window: alt.win}
				if mode == "response" {
					g.RespSig = sig
				} else {
					g.AsrtSig = []*h.SignSpec{sig}
					g.Enc = []*h.EncSpec{{DataAlg: h.DataAlgs[3], Transport: h.Transports[0], Digest: "-", To: h.CertRef{Key: "E1", Window: alt.win}, Key: make([]byte, 16), IV: make([]byte, 16)}}
				}
				add(g)
			}
		}
		g2 := gridGenuine(sp, 1, "assertions")
		g2.Enc = []*h.EncSpec{{DataAlg: h.DataAlgs[1], Transport: h.Transports[1], Digest: "-", To: h.CertRef{Key: "E2", Window: "wide"}, Key: make([]byte, 24), IV: make([]byte, 12)}}
		add(g2)
		c17Inputs = append(c17Inputs, "", "!!!", base64.StdEncoding.EncodeToString([]byte("<x/>")), base64.StdEncoding.EncodeToString([]byte("<samlp:Response xmlns:samlp=\"urn:oasis:names:tc:SAML:2.0:protocol\"/>")))
		// (appended last, so that the indexes above stay what stored replays mean) encrypted assertions whose key
		// transport names its digest EXPLICITLY, one per digest, and one Response with two of them
		for i, dg := range []string{types.MethodSHA1, types.MethodSHA256, types.MethodSHA512} {
			g := gridGenuine(sp, 1, "assertions")
			g.Enc = []*h.EncSpec{{DataAlg: h.DataAlgs[i], Transport: h.Transports[i%2], Digest: dg, To: h.CertRef{Key: "E1", Window: "wide"}, Key: make([]byte, h.KeyLen(h.DataAlgs[i])), IV: make([]byte, 12)}}
			c17DigestInputs = append(c17DigestInputs, len(c17Inputs))
			add(g)
		}
		g3 := gridGenuine(sp, 2, "assertions")
		g3.Enc = []*h.EncSpec{{DataAlg: h.DataAlgs[0], Transport: h.Transports[0], Digest: types.MethodSHA256, To: h.CertRef{Key: "E1", Window: "wide"}, Key: make([]byte, 16), IV: make([]byte, 12)},
			{DataAlg: h.DataAlgs[0], Transport: h.Transports[1], Digest: types.MethodSHA512, To: h.CertRef{Key: "E1", Window: "wide"}, Key: make([]byte, 16), IV: make([]byte, 12)}}
		c17DigestInputs = append(c17DigestInputs, len(c17Inputs))
		add(g3)
		// DEFLATE-compressed presentations of some of the above, and compressed messages that BREAK OFF half-way
		// (the inflater has produced the first part of a document when it fails): whatever a failed call leaves
		// behind, the next call — on this or any other instance — returns what it returns alone
		for _, i := range []int{0, 1, 3, 6, 9} {
			raw, err := base64.StdEncoding.DecodeString(c17Inputs[i])
			if err != nil {
				panic(err)
			}
			for _, lvl := range []int{6, 0} {
				comp := h.Deflate(raw, lvl)
				c17Inputs = append(c17Inputs, base64.StdEncoding.EncodeToString(comp))
				c17Inputs = append(c17Inputs, base64.StdEncoding.EncodeToString(comp[:len(comp)*2/3]))
			}
		}
	})
	return c17Inputs
}

func c17SP(variant int) h.SPConfig {
	sp := h.BaseSP()
	sp.Store = []h.CertRef{{Key: "T1", Window: "wide"}, {Key: "T2", Window: "wide"}}
	sp.SignRequests = true
	switch variant % 10 {
	case 9: // TLS bundle that is not ordered leaf first (issuer, then the certificate of the key)
		sp.Enc = h.KeyCfg{Mode: "tls", Field: h.CertRef{Key: "E1", Window: "wide"}, Chain: true, LeafLast: true}
	case 8: // decryption key assembled from bare components (no precomputed CRT values), generic key store
		sp.Enc = h.KeyCfg{Mode: "custom", Field: h.CertRef{Key: "E1", Window: "wide"}, Bare: true}
	case 6: // IdP store lists a not-yet-valid certificate (pre-published roll-over) BEFORE the current ones
		sp.Store = []h.CertRef{{Key: "T1", Window: "future"}, {Key: "T1", Window: "wide"}, {Key: "T2", Window: "wide"}}
		sp.Enc = h.KeyCfg{Mode: "tls", Field: h.CertRef{Key: "E1", Window: "wide"}}
	case 7: // ... an expired one first, then current ones; setter keys
		sp.Store = []h.CertRef{{Key: "T2", Window: "past"}, {Key: "T1", Window: "wide"}, {Key: "T1", Window: "future"}, {Key: "T2", Window: "wide"}}
		sp.Enc = h.KeyCfg{Mode: "setter", Setter: h.CertRef{Key: "E1", Window: "wide"}}
	case 4: // encryption certificate outside its window, validation of it switched on, generic key store
		sp.Enc = h.KeyCfg{Mode: "custom", Field: h.CertRef{Key: "E1", Window: "past"}}
		sp.ValidateEncCert = true
	case 5:
		sp.Enc = h.KeyCfg{Mode: "tls", Field: h.CertRef{Key: "E1", Window: "future"}}
		sp.ValidateEncCert = true
		sp.Skip = true
	case 0:
		sp.Enc = h.KeyCfg{Mode: "tls", Field: h.CertRef{Key: "E1", Window: "wide"}}
	case 1:
		sp.Enc = h.KeyCfg{Mode: "setter", Setter: h.CertRef{Key: "E1", Window: "wide"}}
		sp.Sig = h.KeyCfg{Mode: "setter", Setter: h.CertRef{Key: "S2", Window: "wide"}}
	case 2:
		sp.Enc = h.KeyCfg{Mode: "custom", Field: h.CertRef{Key: "E1", Window: "wide"}}
		sp.Sig = h.KeyCfg{Mode: "tls", Field: h.CertRef{Key: "S1", Window: "wide"}}
		sp.SignAlg = "http://www.w3.org/2001/04/xmldsig-more#rsa-sha512"
		sp.SignC14N = h.C14Ns[0]
	case 3:
		sp.Enc = h.KeyCfg{Mode: "tls", Field: h.CertRef{Key: "E1", Window: "wide"}}
		sp.Sig = h.KeyCfg{Mode: "setter", Setter: h.CertRef{Key: "S3", Window: "wide"}}
		sp.RAC = &h.RAC{Comparison: "exact", Contexts: []string{"urn:a", "urn:b"}}
	}
	return sp
}

var (
	reID     = regexp.MustCompile(`_[0-9a-f]{8}-[0-9a-f]{4}-4[0-9a-f]{3}-[89ab][0-9a-f]{3}-[0-9a-f]{12}`)
	reB64Val = regexp.MustCompile(`(<ds:(SignatureValue|DigestValue)>)[^<]*(</ds:)`)
)

// blank removes what is random by design (message ID, signature and digest values).
func blank(s string) string {
	s = reID.ReplaceAllString(s, "_ID")
	return reB64Val.ReplaceAllString(s, "$1*$3")
}

func blankURL(u string) string {
	// SAMLRequest / Signature parameters embed the random ID: inflate and blank the request, drop the signature bytes
	i := strings.Index(u, "?")
	if i < 0 {
		return u
	}
	parts := strings.Split(u[i+1:], "&")
	for j, p := range parts {
		k, v, _ := strings.Cut(p, "=")
		switch k {
		case "SAMLRequest":
			dv, _ := pctDecode(v)
			raw, err := base64.StdEncoding.DecodeString(dv)
			if err == nil {
				if x, err := rawInflate(raw); err == nil {
					parts[j] = k + "=" + blank(string(x))
				}
			}
		case "Signature":
			parts[j] = k + "=*"
		}
	}
	return u[:i+1] + strings.Join(parts, "&")
}

func blankPost(b []byte) string {
	re := regexp.MustCompile(`name="SAML(Request|Response)" value="([^"]*)"`)
	return re.ReplaceAllStringFunc(string(b), func(m string) string {
		sm := re.FindStringSubmatch(m)
		raw, err := base64.StdEncoding.DecodeString(strings.ReplaceAll(sm[2], "&#43;", "+"))
		if err != nil {
			return m
		}
		return `name="SAML` + sm[1] + `" value="` + blank(string(raw)) + `"`
	})
}

func resultString(v interface{}, err error) string {
	if err != nil {
		return "error: " + err.Error()
	}
	b, _ := json.Marshal(v)
	return string(b)
}

// held keeps raw results that a caller may still be holding while later calls run; they must not change.
type held struct {
	what string
	b    []byte
	snap string
}

type heldDoc struct {
	what string
	d    *etree.Document
	snap string
}

type heldVal struct {
	what string
	v    interface{}
	snap string
}

type holder struct {
	mu     sync.Mutex
	list   []held
	docs   []heldDoc
	vals   []heldVal
	shared *etree.Document
	once   sync.Once
}

// sharedDoc returns the case's shared caller document (a private one when there is no holder).
func (hd *holder) sharedDoc() *etree.Document {
	if hd == nil {
		return newSharedDoc()
	}
	hd.once.Do(func() { hd.shared = newSharedDoc() })
	return hd.shared
}

// keepVal holds a returned result structure together with its present JSON rendering.
func (hd *holder) keepVal(what string, v interface{}) {
	if hd == nil || v == nil || reflect.ValueOf(v).IsNil() {
		return
	}
	b, _ := json.Marshal(v)
	hd.mu.Lock()
	hd.vals = append(hd.vals, heldVal{what, v, string(b)})
	hd.mu.Unlock()
}

// keepDoc holds a returned document (not yet serialised by its caller) together with its present rendering.
func (hd *holder) keepDoc(what string, d *etree.Document) {
	if hd == nil || d == nil {
		return
	}
	s, _ := d.WriteToString()
	hd.mu.Lock()
	hd.docs = append(hd.docs, heldDoc{what, d, s})
	hd.mu.Unlock()
}

func (hd *holder) keep(what string, b []byte) {
	if hd == nil {
		return
	}
	hd.mu.Lock()
	hd.list = append(hd.list, held{what, b, string(b)})
	hd.mu.Unlock()
}

// changed reports the first held result that no longer equals its snapshot.
func (hd *holder) changed() string {
	hd.mu.Lock()
	defer hd.mu.Unlock()
	for _, x := range hd.list {
		if string(x.b) != x.snap {
			return x.what
		}
	}
	for _, x := range hd.docs {
		if s, _ := x.d.WriteToString(); s != x.snap {
			return x.what + "-document"
		}
	}
	for _, x := range hd.vals {
		if b, _ := json.Marshal(x.v); string(b) != x.snap {
			return x.what + "-result"
		}
	}
	return ""
}

// run executes one operation and returns a canonical rendering of its result.
func (op C17Op) run(sp *saml2.SAMLServiceProvider) string { return op.runHold(sp, nil) }

func (op C17Op) runHold(sp *saml2.SAMLServiceProvider, hd *holder) string {
	in := c17Pool()[op.Input%len(c17Pool())]
	docStr := func(d *etree.Document, err error) string {
		if err != nil {
			return "error: " + err.Error()
		}
		hd.keepDoc(op.Kind, d)
		s, _ := d.WriteToString()
		return blank(s)
	}
	switch op.Kind {
	case "authn-doc":
		return docStr(sp.BuildAuthRequestDocument())
	case "authn-str":
		s, err := sp.BuildAuthRequest()
		if err != nil {
			return "error: " + err.Error()
		}
		return blank(s)
	case "logout-req":
		return docStr(sp.BuildLogoutRequestDocument("user:"+op.Arg, "sess:"+op.Arg))
	case "logout-resp":
		return docStr(sp.BuildLogoutResponseDocument(saml2.StatusCodeSuccess, "req:"+op.Arg))
	case "auth-url":
		u, err := sp.BuildAuthURL(op.Arg)
		if err != nil {
			return "error: " + err.Error()
		}
		return blankURL(u)
	case "auth-url-redirect":
		d, err := sp.BuildAuthRequestDocumentNoSig()
		if err != nil {
			return "error: " + err.Error()
		}
		hd.keepDoc(op.Kind, d)
		u, err := sp.BuildAuthURLRedirect(op.Arg, d)
		if err != nil {
			return "error: " + err.Error()
		}
		return blankURL(u)
	case "logout-url":
		d, err := sp.BuildLogoutRequestDocumentNoSig("n"+op.Arg, "s")
		if err != nil {
			return "error: " + err.Error()
		}
		hd.keepDoc(op.Kind, d)
		u, err := sp.BuildLogoutURLRedirect(op.Arg, d)
		if err != nil {
			return "error: " + err.Error()
		}
		return blankURL(u)
	case "auth-post":
		b, err := sp.BuildAuthBodyPost(op.Arg)
		if err != nil {
			return "error: " + err.Error()
		}
		hd.keep(op.Kind, b)
		return blankPost(b)
	case "auth-post-doc", "logout-post", "logout-resp-post":
		var d *etree.Document
		var err error
		switch op.Kind {
		case "auth-post-doc":
			d, err = sp.BuildAuthRequestDocumentNoSig()
		case "logout-post":
			d, err = sp.BuildLogoutRequestDocumentNoSig("user:"+op.Arg, "s")
		default:
			d, err = sp.BuildLogoutResponseDocumentNoSig(saml2.StatusCodeSuccess, "req:"+op.Arg)
		}
		if err != nil {
			return "error: " + err.Error()
		}
		hd.keepDoc(op.Kind, d)
		var b []byte
		switch op.Kind {
		case "auth-post-doc":
			b, err = sp.BuildAuthBodyPostFromDocument(op.Arg, d)
		case "logout-post":
			b, err = sp.BuildLogoutBodyPostFromDocument(op.Arg, d)
		default:
			b, err = sp.BuildLogoutResponseBodyPostFromDocument(op.Arg, d)
		}
		if err != nil {
			return "error: " + err.Error()
		}
		hd.keep(op.Kind, b)
		return blankPost(b)
	case "shared-auth-url", "shared-logout-url", "shared-auth-post", "shared-serialize":
		d := hd.sharedDoc()
		switch op.Kind {
		case "shared-auth-url":
			u, err := sp.BuildAuthURLRedirect(op.Arg, d)
			if err != nil {
				return "error: " + err.Error()
			}
			return blankURL(u)
		case "shared-logout-url":
			u, err := sp.BuildLogoutURLRedirect(op.Arg, d)
			if err != nil {
				return "error: " + err.Error()
			}
			return blankURL(u)
		case "shared-auth-post":
			b, err := sp.BuildAuthBodyPostFromDocument(op.Arg, d)
			if err != nil {
				return "error: " + err.Error()
			}
			return string(b)
		}
		sdoc, _ := d.WriteToString()
		return sdoc
	case "metadata":
		md, err := sp.Metadata()
		if err != nil {
			return "error: " + err.Error()
		}
		b, _ := xml.Marshal(md)
		if op.Mut && md.SPSSODescriptor != nil {
			// the caller edits its copy in place: later results must not show it
			d := md.SPSSODescriptor
			for i := range d.KeyDescriptors {
				for j := range d.KeyDescriptors[i].EncryptionMethods {
					d.KeyDescriptors[i].EncryptionMethods[j].Algorithm = "urn:edited"
				}
				for k := range d.KeyDescriptors[i].KeyInfo.X509Data.X509Certificates {
					d.KeyDescriptors[i].KeyInfo.X509Data.X509Certificates[k].Data = "ZWRpdGVk"
				}
			}
			for j := range d.AssertionConsumerServices {
				d.AssertionConsumerServices[j].Location = "https://edited.example/"
			}
			md.EntityID = "edited"
		} else {
			hd.keepVal(op.Kind, md)
		}
		return string(b)
	case "metadata-slo":
		md, err := sp.MetadataWithSLO(int64(len(op.Arg)))
		if err != nil {
			return "error: " + err.Error()
		}
		b, _ := xml.Marshal(md)
		if op.Mut && md.SPSSODescriptor != nil {
			for i := range md.SPSSODescriptor.KeyDescriptors {
				ms := md.SPSSODescriptor.KeyDescriptors[i].EncryptionMethods
				for j := range ms {
					ms[j].Algorithm = "urn:edited"
				}
				md.SPSSODescriptor.KeyDescriptors[i].EncryptionMethods = ms[:0]
			}
			for j := range md.SPSSODescriptor.SingleLogoutServices {
				md.SPSSODescriptor.SingleLogoutServices[j].Location = "https://edited.example/"
			}
		}
		return string(b)
	case "validate":
		r, err := sp.ValidateEncodedResponse(in)
		s := resultString(r, err)
		if !op.Mut {
			hd.keepVal(op.Kind, r)
		}
		if op.Mut && r != nil {
			// mutating a returned result must not affect later results
			r.ID = "mutated"
			for i := range r.Assertions {
				if r.Assertions[i].Subject != nil && r.Assertions[i].Subject.NameID != nil {
					r.Assertions[i].Subject.NameID.Value = "mutated"
				}
			}
			r.Assertions = nil
		}
		return s
	case "retrieve":
		r, err := sp.RetrieveAssertionInfo(in)
		s := resultString(r, err)
		if !op.Mut {
			hd.keepVal(op.Kind, r)
		}
		if op.Mut && r != nil {
			r.NameID = "mutated"
			for k := range r.Values {
				delete(r.Values, k)
			}
			if r.WarningInfo != nil {
				r.WarningInfo.NotInAudience = !r.WarningInfo.NotInAudience
			}
		}
		return s
	case "logout-validate-req":
		r, err := sp.ValidateEncodedLogoutRequestPOST(in)
		s := resultString(r, err)
		if !op.Mut {
			hd.keepVal(op.Kind, r)
		}
		if op.Mut && r != nil && r.Issuer != nil {
			r.Issuer.Value = "mutated"
		}
		return s
	case "logout-validate-resp":
		r, err := sp.ValidateEncodedLogoutResponsePOST(in)
		hd.keepVal(op.Kind, r)
		return resultString(r, err)
	case "decode-base":
		r, err := saml2.DecodeUnverifiedBaseResponse(in)
		return resultString(r, err)
	case "decode-logout":
		r, err := saml2.DecodeUnverifiedLogoutResponse(in)
		return resultString(r, err)
	case "signing-cert":
		b, err := sp.GetSigningCertBytes()
		return resultString(len(b), err)
	case "sign-el":
		el := etree.NewElement("samlp:AuthnRequest")
		el.CreateAttr("xmlns:samlp", h.NSProtocol)
		el.CreateAttr("ID", "_fixed"+op.Arg)
		el.CreateElement("Issuer").SetText("x")
		el.CreateElement("Other")
		signed, err := sp.SignAuthnRequest(el)
		if err != nil {
			return "error: " + err.Error()
		}
		d := etree.NewDocument()
		d.SetRoot(signed)
		s, _ := d.WriteToString()
		return blank(s)
	}
	return "unknown op"
}

// snapshot captures the exported configuration of the SP (what validation must not modify).
func snapshot(sp *saml2.SAMLServiceProvider) string {
	v := reflect.ValueOf(sp).Elem()
	var sb strings.Builder
	for i := 0; i < v.NumField(); i++ {
		f := v.Type().Field(i)
		if !f.IsExported() {
			continue
		}
		switch f.Name {
		case "IDPCertificateStore":
			if sp.IDPCertificateStore != nil {
				roots, _ := sp.IDPCertificateStore.Certificates()
				for _, r := range roots {
					fmt.Fprintf(&sb, "store:%x;", r.SerialNumber)
				}
			}
		case "Clock":
			fmt.Fprintf(&sb, "clock:%v;", sp.Clock.Now().UnixNano())
		case "SPKeyStore", "SPSigningKeyStore":
			fmt.Fprintf(&sb, "%s:%v;", f.Name, !v.Field(i).IsNil())
			// the key object belongs to the configuration too: validation has no business writing into it
			if !v.Field(i).IsNil() {
				switch ks := v.Field(i).Interface().(type) {
				case *h.CustomStore:
					fmt.Fprintf(&sb, "%s.cert:%x;", f.Name, sha256.Sum256(ks.Cert))
					if ks.Key != nil {
						fmt.Fprintf(&sb, "%s.precomputed:%v/%d;", f.Name, ks.Key.Precomputed.Dp != nil, len(ks.Key.Precomputed.CRTValues))
					}
				case dsig.TLSCertKeyStore:
					for ci, der := range ks.Certificate {
						fmt.Fprintf(&sb, "%s.chain[%d]:%x;", f.Name, ci, sha256.Sum256(der))
					}
					if rk, ok := ks.PrivateKey.(*rsa.PrivateKey); ok {
						fmt.Fprintf(&sb, "%s.precomputed:%v;", f.Name, rk.Precomputed.Dp != nil)
					}
				}
			}
		case "SignAuthnRequestsCanonicalizer":
			fmt.Fprintf(&sb, "%s:%v;", f.Name, !v.Field(i).IsNil())
		case "RequestedAuthnContext":
			if sp.RequestedAuthnContext != nil {
				fmt.Fprintf(&sb, "rac:%q:%q;", sp.RequestedAuthnContext.Comparison, sp.RequestedAuthnContext.Contexts)
			}
		default:
			fmt.Fprintf(&sb, "%s:%v;", f.Name, v.Field(i).Interface())
		}
	}
	return sb.String()
}

func genC17Ops(t *rapid.T, n int) []C17Op {
	var ops []C17Op
	for i := 0; i < n; i++ {
		ops = append(ops, C17Op{Kind: rapid.SampledFrom(c17OpKinds).Draw(t, "op"), Input: rapid.IntRange(0, 31).Draw(t, "input"),
			Arg: rapid.SampledFrom([]string{"", "a", "relay state", "x&y"}).Draw(t, "arg"), Mut: rapid.Bool().Draw(t, "mutate")})
	}
	return ops
}

// ---- Part A: sequential isolation / purity ----------------------------------------------------

func genC17Seq(t *rapid.T) C17Case {
	return C17Case{SP: c17SP(rapid.IntRange(0, 9).Draw(t, "spVariant")), Seq: true, Ops: [][]C17Op{genC17Ops(t, rapid.IntRange(1, 12).Draw(t, "nOps"))}}
}

func checkC17Seq(c C17Case) h.Outcome {
	o := h.Outcome{NonTrivial: len(c.Ops[0]) >= 2}
	shared := c.SP.Build()
	before := snapshot(shared)
	pool := append([]string{}, c17Pool()...)
	hd := &holder{}
	for i, op := range c.Ops[0] {
		o.Classes = append(o.Classes, "op:"+op.Kind)
		got := op.runHold(shared, hd)
		if w := hd.changed(); w != "" {
			o.Violation = h.V("earlier-result-modified/"+w, "step %d (%+v): a result returned earlier by %s was modified by a later call", i, op, w)
			return o
		}
		want := op.run(c.SP.Build())
		if got != want {
			o.Violation = h.V("history-dependent-result/"+op.Kind, "step %d (%+v) on a used SP gives a different result than on a fresh identical SP:\n used: %.400s\nfresh: %.400s", i, op, got, want)
			return o
		}
		if again := op.run(shared); again != got {
			o.Violation = h.V("not-idempotent/"+op.Kind, "step %d (%+v) repeated on the same SP gives a different result", i, op)
			return o
		}
		if after := snapshot(shared); after != before {
			o.Violation = h.V("configuration-modified/"+op.Kind, "step %d (%+v) modified the SP configuration:\n before %s\n after  %s", i, op, before, after)
			return o
		}
		for j, s := range c17Pool() {
			if s != pool[j] {
				o.Violation = h.V("input-modified/"+op.Kind, "step %d modified input %d", i, j)
				return o
			}
		}
	}
	o.Classes = dedup(o.Classes)
	return o
}

// ---- Part B: concurrent use of a FRESH SP (first-use race on the lazy signing context), under -race ----

func genC17Conc(t *rapid.T) C17Case {
	c := C17Case{SP: c17SP(rapid.IntRange(0, 9).Draw(t, "spVariant"))}
	g := rapid.IntRange(2, 16).Draw(t, "goroutines")
	for i := 0; i < g; i++ {
		c.Ops = append(c.Ops, genC17Ops(t, rapid.IntRange(1, 4).Draw(t, "nOps")))
	}
	return c
}

var (
	refMu    sync.Mutex
	refCache = map[string]string{}
)

func checkC17Conc(c C17Case) h.Outcome {
	o := h.Outcome{NonTrivial: true, Classes: []string{fmt.Sprintf("goroutines:%d", len(c.Ops))}}
	// sequential reference on fresh SPs (memoised per configuration and operation: the reference is a pure
	// function of both, and the repeated first-use races below ask for the same few thousands of times)
	cfgKey, _ := json.Marshal(c.SP)
	want := make([][]string, len(c.Ops))
	for g, ops := range c.Ops {
		for _, op := range ops {
			opKey, _ := json.Marshal(op)
			k := string(cfgKey) + "|" + string(opKey)
			refMu.Lock()
			w, ok := refCache[k]
			refMu.Unlock()
			if !ok {
				w = op.run(c.SP.Build())
				refMu.Lock()
				refCache[k] = w
				refMu.Unlock()
			}
			want[g] = append(want[g], w)
			o.Classes = append(o.Classes, "op:"+op.Kind)
		}
	}
	shared := c.SP.Build()
	before := snapshot(shared)
	got := make([][]string, len(c.Ops))
	hd := &holder{}
	start := make(chan struct{})
	var arrived int32
	var wg sync.WaitGroup
	for g, ops := range c.Ops {
		wg.Add(1)
		go func(g int, ops []C17Op) {
			defer wg.Done()
			<-start
			// spin barrier: every goroutine is running (not merely runnable) when the first call is made, which
			// keeps the first-use window populated even on a busy machine
			atomic.AddInt32(&arrived, 1)
			for spins := 0; atomic.LoadInt32(&arrived) < int32(len(c.Ops)) && spins < 1<<20; spins++ {
				runtime.Gosched()
			}
			for _, op := range ops {
				var s string
				if pv := h.Guard(func() { s = op.runHold(shared, hd) }); pv != nil {
					s = "PANIC: " + pv.Detail
				}
				got[g] = append(got[g], s)
				runtime.Gosched()
			}
		}(g, ops)
	}
	close(start)
	wg.Wait()
	for g := range c.Ops {
		for i := range c.Ops[g] {
			if got[g][i] != want[g][i] {
				sig := "concurrent-result-differs/" + c.Ops[g][i].Kind
				if strings.HasPrefix(got[g][i], "PANIC") {
					sig = "concurrent-panic/" + c.Ops[g][i].Kind
				}
				o.Violation = h.V(sig, "goroutine %d step %d (%+v): concurrent result differs from the call made alone:\nconcurrent: %.400s\n     alone: %.400s\nall operation lists: %+v", g, i, c.Ops[g][i], got[g][i], want[g][i], c.Ops)
				return o
			}
		}
	}
	if w := hd.changed(); w != "" {
		o.Violation = h.V("earlier-result-modified/"+w, "a byte slice returned by %s changed while other goroutines kept calling the SP (all operation lists: %+v)", w, c.Ops)
		return o
	}
	if after := snapshot(shared); after != before {
		o.Violation = h.V("configuration-modified/concurrent", "configuration changed under concurrent use")
	}
	o.Classes = dedup(o.Classes)
	return o
}

func TestC17_PSeq(t *testing.T)  { h.RunProp(t, "C17.seq", genC17Seq, checkC17Seq) }
func TestC17_PConc(t *testing.T) { h.RunProp(t, "C17.conc", genC17Conc, checkC17Conc) }
func TestC17_Replay(t *testing.T) {
	h.RunReplay(t, "C17.seq", checkC17Seq)
	h.RunReplay(t, "C17.conc", checkC17Conc)
}

// TestC17_GridFirstUse: every signing operation raced against every other as the very first use of a fresh SP.
func TestC17_GridFirstUse(t *testing.T) {
	signing := []string{"authn-doc", "authn-str", "logout-req", "logout-resp", "auth-url", "auth-url-redirect", "logout-url", "auth-post", "logout-post", "sign-el", "metadata", "validate"}
	var cases []C17Case
	// variant 2 first: a NON-default signature algorithm and canonicaliser — a loser of the first-use race that
	// builds its own signing context without them produces a valid but different signature
	variants := []int{2, 0}
	if h.Thorough() {
		variants = []int{2, 0, 1, 3}
	}
	for _, v := range variants {
		for _, a := range signing {
			for _, b := range signing {
				c := C17Case{SP: c17SP(v)}
				for g := 0; g < 8; g++ {
					k := a
					if g%2 == 1 {
						k = b
					}
					c.Ops = append(c.Ops, []C17Op{{Kind: k, Input: g, Arg: "r"}})
				}
				cases = append(cases, c)
			}
		}
	}
	// the first signature of a fresh instance, raced by 48 goroutines, 150 times over (non-default algorithm)
	for i := 0; i < 150; i++ {
		c := C17Case{SP: c17SP(2)}
		for g := 0; g < 48; g++ {
			c.Ops = append(c.Ops, []C17Op{{Kind: []string{"authn-str", "logout-req", "sign-el", "logout-resp"}[(g+i)%4], Input: 0, Arg: "r"}})
		}
		cases = append(cases, c)
	}
	h.RunCases(t, "C17.conc", cases, checkC17Conc)
}

// TestC17_GridDecrypt: many goroutines decrypt and validate encrypted assertions at the same time — every key
// transport digest, on one service provider: each call returns what it returns alone (and the race detector
// watches whatever the decryption shares).
func TestC17_GridDecrypt(t *testing.T) {
	c17Pool()
	var cases []C17Case
	reps := 40
	if h.Thorough() {
		reps = 300
	}
	for i := 0; i < reps; i++ {
		c := C17Case{SP: c17SP(i % 2)}
		for g := 0; g < 32; g++ {
			in := c17DigestInputs[(g+i)%len(c17DigestInputs)]
			if i%4 == 3 {
				in = c17DigestInputs[i%len(c17DigestInputs)] // everybody the same message
			}
			c.Ops = append(c.Ops, []C17Op{{Kind: []string{"validate", "retrieve"}[g%2], Input: in}})
		}
		cases = append(cases, c)
	}
	h.RunCases(t, "C17.conc", cases, checkC17Conc)
}

// TestC17_GridManyBuilds: several goroutines build thousands of messages on one shared SP (the number of
// generated identifiers crosses 4096 / 8192 / 16384), under the race detector; all IDs distinct.
// TestC17_GridSharedDoc: eight goroutines hand ONE caller-made document to the redirect / POST builders (and
// serialise it themselves) at the same time; the builders only read it.
func TestC17_GridSharedDoc(t *testing.T) {
	kinds := []string{"shared-auth-url", "shared-auth-post", "shared-serialize", "shared-logout-url"}
	var cases []C17Case
	for v := 0; v < 3; v++ {
		for rep := 0; rep < 8; rep++ {
			c := C17Case{SP: c17SP(v)}
			for g := 0; g < 8; g++ {
				c.Ops = append(c.Ops, []C17Op{{Kind: kinds[(g+rep)%4], Arg: "state"}, {Kind: kinds[(g+rep+1)%4], Arg: "r"}})
			}
			cases = append(cases, c)
		}
	}
	h.RunCases(t, "C17.conc", cases, checkC17Conc)
}

func TestC17_GridManyBuilds(t *testing.T) {
	type manyCase struct {
		Goroutines int `json:"goroutines"`
		PerG       int `json:"perGoroutine"`
	}
	per := 2500
	if h.Thorough() {
		per = 9000
	}
	h.RunCases(t, "C17.many", []manyCase{{4, per}, {8, per / 2}}, func(c manyCase) h.Outcome {
		o := h.Outcome{NonTrivial: true, Classes: []string{fmt.Sprintf("many:%dx%d", c.Goroutines, c.PerG)}}
		sp := c17SP(0).Build()
		ids := make([][]string, c.Goroutines)
		var wg sync.WaitGroup
		start := make(chan struct{})
		for g := 0; g < c.Goroutines; g++ {
			wg.Add(1)
			go func(g int) {
				defer wg.Done()
				<-start
				for i := 0; i < c.PerG; i++ {
					var d *etree.Document
					var err error
					switch (i + g) % 3 {
					case 0:
						d, err = sp.BuildAuthRequestDocumentNoSig()
					case 1:
						d, err = sp.BuildLogoutRequestDocumentNoSig("n", "s")
					default:
						d, err = sp.BuildLogoutResponseDocumentNoSig("st", "r")
					}
					if err != nil {
						ids[g] = append(ids[g], "!error: "+err.Error())
						continue
					}
					ids[g] = append(ids[g], d.Root().SelectAttrValue("ID", ""))
				}
			}(g)
		}
		close(start)
		wg.Wait()
		seen := map[string]bool{}
		for _, l := range ids {
			for _, id := range l {
				if !idRe.MatchString(id) {
					o.Violation = h.V("concurrent-build/bad-id", "ID %q built concurrently is malformed", id)
					return o
				}
				if seen[id] {
					o.Violation = h.V("concurrent-build/id-repeat", "ID %q was produced twice by concurrent builders", id)
					return o
				}
				seen[id] = true
			}
		}
		return o
	})
}

// ---- Part C: re-configuration differential -----------------------------------------------------------
// One long-lived service provider whose exported configuration is re-assigned between calls (clock, IdP
// certificate store, SP key store field / setter, boolean options, URLs; signing keys only before the first
// signature, because the signing context is created lazily and kept by design). After every step the
// operation must return exactly what it returns on a FRESH service provider carrying the current
// configuration: nothing derived from an earlier configuration may survive a re-assignment.

type C17Step struct {
	Reconf string `json:"reconf,omitempty"` // field to re-assign ("" = none)
	V      int    `json:"v"`
	Op     C17Op  `json:"op"`
}

type C17Reconf struct {
	Steps []C17Step `json:"steps"`
}

type spState struct {
	cfg       h.SPConfig
	encField  int // index into encFieldChoices
	encSetter int // index into keySetterChoices
	sigField  int
	sigSetter int
}

var (
	reconfClocks = []string{"2030-03-01T12:00:00Z", "2000-06-01T00:00:00Z", "2030-03-01T00:00:00Z", "2030-03-05T00:00:00Z", "2035-01-01T00:00:00.5Z", "2030-03-02T00:00:00.000000001Z"}
	reconfStores = [][]h.CertRef{{{Key: "T1", Window: "wide"}}, {{Key: "T2", Window: "wide"}}, {{Key: "T1", Window: "wide"}, {Key: "T2", Window: "wide"}}, {{Key: "T1", Window: "past"}}, {{Key: "T1", Window: "narrow"}, {Key: "T1", Window: "wide"}}, {}}
	// deprecated-field choices: kind + certificate
	encFieldChoices = []struct {
		kind string
		c    h.CertRef
	}{{"none", h.CertRef{}}, {"tls", h.CertRef{Key: "E1", Window: "wide"}}, {"custom", h.CertRef{Key: "E1", Window: "wide"}}, {"tls", h.CertRef{Key: "E1", Window: "past"}}, {"custom", h.CertRef{Key: "E1", Window: "narrow"}}, {"tls", h.CertRef{Key: "E2", Window: "wide"}}, {"custom", h.CertRef{Key: "E2", Window: "narrow"}}, {"custom-bare", h.CertRef{Key: "E1", Window: "wide"}}}
	encSetterChoices = []*h.CertRef{nil, {Key: "E1", Window: "wide"}, {Key: "E2", Window: "wide"}, {Key: "E1", Window: "narrow"}}
	sigFieldChoices  = []*h.CertRef{nil, {Key: "S1", Window: "wide"}, {Key: "S2", Window: "wide"}}
	sigSetterChoices = []*h.CertRef{nil, {Key: "S2", Window: "wide"}, {Key: "S1", Window: "wide"}}
	reconfFields     = []string{"clock", "clock", "store", "store", "encField", "encField", "encSetter", "validateEnc", "skip", "allowMissing", "acs", "issuer", "audience", "slo", "maxSize", "sigField", "sigSetter", "idpSSO", "idpSLO", "spIssuer", "nameIDFormat", "forceAuthn", "signRequests", "signAlg", "signC14N"}
)

func fieldStore(kind string, c h.CertRef) dsig.X509KeyStore {
	switch kind {
	case "tls":
		return h.TLSStore(c)
	case "custom":
		return h.NewCustomStore(c)
	case "custom-bare":
		return h.NewBareCustomStore(c)
	}
	return nil
}

// apply re-assigns one field on the tracked state and, if sp != nil, on the live instance.
func (st *spState) apply(field string, v int, sp *saml2.SAMLServiceProvider) {
	switch field {
	case "clock":
		at, _ := time.Parse(time.RFC3339Nano, reconfClocks[v%len(reconfClocks)])
		st.cfg.NowUnixNano = at.UnixNano()
		if sp != nil {
			sp.Clock = dsig.NewFakeClockAt(st.cfg.Now())
		}
	case "store":
		st.cfg.Store = reconfStores[v%len(reconfStores)]
		if sp != nil {
			sp.IDPCertificateStore = h.Store(st.cfg.Store)
		}
	case "encField":
		st.encField = v % len(encFieldChoices)
		if sp != nil {
			ch := encFieldChoices[st.encField]
			if ks := fieldStore(ch.kind, ch.c); ks != nil {
				sp.SPKeyStore = ks
			} else {
				sp.SPKeyStore = nil
			}
		}
	case "encSetter":
		st.encSetter = v % len(encSetterChoices)
		if sp != nil {
			if c := encSetterChoices[st.encSetter]; c != nil {
				sp.SetSPKeyStore(&saml2.KeyStore{Signer: h.K(c.Key).Signer, Cert: c.DER()})
			} else {
				sp.SetSPKeyStore(nil)
			}
		}
	case "sigField":
		st.sigField = v % len(sigFieldChoices)
		if sp != nil {
			if c := sigFieldChoices[st.sigField]; c != nil {
				sp.SPSigningKeyStore = h.TLSStore(*c)
			} else {
				sp.SPSigningKeyStore = nil
			}
		}
	case "sigSetter":
		st.sigSetter = v % len(sigSetterChoices)
		if sp != nil {
			if c := sigSetterChoices[st.sigSetter]; c != nil {
				sp.SetSPSigningKeyStore(&saml2.KeyStore{Signer: h.K(c.Key).Signer, Cert: c.DER()})
			} else {
				sp.SetSPSigningKeyStore(nil)
			}
		}
	case "validateEnc":
		st.cfg.ValidateEncCert = v%2 == 0
		if sp != nil {
			sp.ValidateEncryptionCert = st.cfg.ValidateEncCert
		}
	case "skip":
		st.cfg.Skip = v%2 == 0
		if sp != nil {
			sp.SkipSignatureValidation = st.cfg.Skip
		}
	case "allowMissing":
		st.cfg.AllowMissing = v%2 == 0
		if sp != nil {
			sp.AllowMissingAttributes = st.cfg.AllowMissing
		}
	case "acs":
		st.cfg.ACS = []string{"https://sp.example.com/saml/acs", "https://other.example.com/acs"}[v%2]
		if sp != nil {
			sp.AssertionConsumerServiceURL = st.cfg.ACS
		}
	case "issuer":
		st.cfg.IdPIssuer = []string{"https://idp.example.com/metadata", "", "https://other-idp.example.com"}[v%3]
		if sp != nil {
			sp.IdentityProviderIssuer = st.cfg.IdPIssuer
		}
	case "audience":
		st.cfg.Audience = []string{"https://sp.example.com/metadata", "", "urn:other"}[v%3]
		if sp != nil {
			sp.AudienceURI = st.cfg.Audience
		}
	case "slo":
		st.cfg.SLO = []string{"https://sp.example.com/saml/slo", "", "https://other.example.com/slo"}[v%3]
		if sp != nil {
			sp.ServiceProviderSLOURL = st.cfg.SLO
		}
	case "maxSize":
		st.cfg.MaxSize = []int64{0, 100, 1 << 20}[v%3]
		if sp != nil {
			sp.MaximumDecompressedBodySize = st.cfg.MaxSize
		}
	case "idpSSO":
		st.cfg.IdPSSO = []string{"https://idp.example.com/sso", "https://idp-b.example.com/sso?tenant=b&realm=x", "https://idp.example.com/sso?tenant=a", "https://other-idp.example.com/login"}[v%4]
		if sp != nil {
			sp.IdentityProviderSSOURL = st.cfg.IdPSSO
		}
	case "idpSLO":
		st.cfg.IdPSLO = []string{"https://idp.example.com/slo", "https://idp-b.example.com/slo?tenant=b", "https://other-idp.example.com/logout", ""}[v%4]
		if sp != nil {
			sp.IdentityProviderSLOURL = st.cfg.IdPSLO
		}
	case "spIssuer":
		st.cfg.SPIssuer = []string{"https://sp.example.com/metadata", "urn:sp:other", ""}[v%3]
		if sp != nil {
			sp.ServiceProviderIssuer = st.cfg.SPIssuer
		}
	case "nameIDFormat":
		st.cfg.NameIDFormat = []string{"", saml2.NameIdFormatEmailAddress, saml2.NameIdFormatPersistent}[v%3]
		if sp != nil {
			sp.NameIdFormat = st.cfg.NameIDFormat
		}
	case "forceAuthn":
		st.cfg.ForceAuthn = v%2 == 0
		if sp != nil {
			sp.ForceAuthn = st.cfg.ForceAuthn
		}
	case "signRequests":
		st.cfg.SignRequests = v%2 == 0
		if sp != nil {
			sp.SignAuthnRequests = st.cfg.SignRequests
		}
	case "signAlg":
		st.cfg.SignAlg = []string{"", dsig.RSASHA512SignatureMethod, dsig.RSASHA1SignatureMethod}[v%3]
		if sp != nil {
			sp.SignAuthnRequestsAlgorithm = st.cfg.SignAlg
		}
	case "signC14N":
		st.cfg.SignC14N = []string{"", h.C14Ns[0], h.C14Ns[2]}[v%3]
		if sp != nil {
			if st.cfg.SignC14N == "" {
				sp.SignAuthnRequestsCanonicalizer = nil
			} else {
				sp.SignAuthnRequestsCanonicalizer = h.CanonicalizerFor(st.cfg.SignC14N)
			}
		}
	}
}

// fresh builds a new service provider from the tracked state.
func (st *spState) fresh() *saml2.SAMLServiceProvider {
	cfg := st.cfg
	cfg.Enc, cfg.Sig = h.KeyCfg{}, h.KeyCfg{}
	sp := cfg.Build()
	tmp := *st
	tmp.apply("encField", st.encField, sp)
	tmp.apply("encSetter", st.encSetter, sp)
	tmp.apply("sigField", st.sigField, sp)
	tmp.apply("sigSetter", st.sigSetter, sp)
	return sp
}

var signingOps = map[string]bool{"authn-doc": true, "authn-str": true, "logout-req": true, "logout-resp": true, "auth-url": true, "auth-url-redirect": true, "logout-url": true, "auth-post": true, "sign-el": true,
	"shared-auth-url": true, "shared-logout-url": true} // the redirect builders sign the query through the (lazily created, kept) signing context
var keyFields = map[string]bool{"encField": true, "encSetter": true, "sigField": true, "sigSetter": true, "signAlg": true, "signC14N": true}

// c17EncryptedInputs lists the pool entries that carry an EncryptedAssertion.
func c17EncryptedInputs() []int {
	var out []int
	for i, in := range c17Pool() {
		raw, err := base64.StdEncoding.DecodeString(in)
		if err == nil && strings.Contains(string(raw), "EncryptedAssertion") {
			out = append(out, i)
		}
	}
	return out
}

func genC17Reconf(t *rapid.T) C17Reconf {
	// three families of histories: key rotation (no signing), validation-side re-configuration, everything
	return genReconfFocus(t, rapid.SampledFrom([]string{"keys", "keys", "validation", "endpoints", "all"}).Draw(t, "focus"))
}

// genEncRotation / genSigRotation: histories that only rotate the decryption (signing) key and its validation
// switch, run under C11 (C13) without the race detector and therefore with many more cases.
func genEncRotation(t *rapid.T) C17Reconf { return genReconfFocus(t, "enc-keys") }
func genSigRotation(t *rapid.T) C17Reconf { return genReconfFocus(t, "sig-keys") }

func genReconfFocus(t *rapid.T, focus string) C17Reconf {
	var c C17Reconf
	fields, kinds := reconfFields, c17OpKinds
	switch focus {
	case "keys":
		fields = []string{"sigField", "sigField", "sigSetter", "encField", "encField", "encSetter", "validateEnc", "clock"}
		kinds = []string{"metadata", "metadata-slo", "signing-cert", "signing-cert", "validate", "validate", "retrieve"}
	case "endpoints":
		fields = []string{"idpSSO", "idpSSO", "idpSLO", "idpSLO", "acs", "slo", "spIssuer", "issuer", "nameIDFormat", "forceAuthn", "signRequests", "clock"}
		kinds = []string{"auth-url", "auth-url-redirect", "logout-url", "auth-post", "auth-post-doc", "logout-post", "logout-resp-post", "authn-doc", "logout-req", "logout-resp", "metadata", "metadata-slo"}
	case "redirect":
		fields = []string{"idpSSO", "idpSSO", "idpSLO", "idpSLO", "signRequests", "spIssuer"}
		kinds = []string{"auth-url", "auth-url-redirect", "logout-url"}
	case "post":
		fields = []string{"idpSSO", "idpSSO", "idpSLO", "idpSLO", "signRequests", "spIssuer"}
		kinds = []string{"auth-post", "auth-post-doc", "logout-post", "logout-resp-post"}
	case "enc-keys":
		fields = []string{"encField", "encField", "encSetter", "validateEnc", "clock"}
		kinds = []string{"validate", "validate", "retrieve", "metadata"}
	case "sig-keys":
		fields = []string{"sigField", "sigField", "sigSetter", "clock", "signAlg", "signC14N"}
		kinds = []string{"metadata", "metadata-slo", "signing-cert", "signing-cert", "authn-str", "logout-req"}
	case "validation":
		fields = []string{"clock", "clock", "store", "store", "encField", "encSetter", "validateEnc", "skip", "allowMissing", "acs", "issuer", "audience", "slo", "maxSize"}
		kinds = []string{"validate", "validate", "retrieve", "retrieve", "logout-validate-req", "logout-validate-resp", "decode-base", "metadata"}
	}
	enc := c17EncryptedInputs()
	n := rapid.IntRange(2, 10).Draw(t, "steps")
	for i := 0; i < n; i++ {
		s := C17Step{}
		if rapid.IntRange(0, 3).Draw(t, "doReconf") != 0 {
			s.Reconf = rapid.SampledFrom(fields).Draw(t, "field")
			s.V = rapid.IntRange(0, 11).Draw(t, "value")
		}
		s.Op = C17Op{Kind: rapid.SampledFrom(kinds).Draw(t, "op"), Input: rapid.IntRange(0, 63).Draw(t, "input"), Arg: rapid.SampledFrom([]string{"", "a", "x&y"}).Draw(t, "arg"), Mut: rapid.Bool().Draw(t, "mutate")}
		if focus != "all" && len(enc) > 0 && rapid.Bool().Draw(t, "encryptedInput") {
			s.Op.Input = enc[rapid.IntRange(0, len(enc)-1).Draw(t, "whichEncrypted")]
		}
		c.Steps = append(c.Steps, s)
	}
	return c
}

func checkC17Reconf(c C17Reconf) h.Outcome {
	o := h.Outcome{NonTrivial: true}
	st := &spState{cfg: c17SP(0), encField: 1}
	st.cfg.Enc, st.cfg.Sig = h.KeyCfg{}, h.KeyCfg{}
	st.cfg.SignRequests = true
	shared := st.fresh()
	signed := false
	hd := &holder{}
	for i, s := range c.Steps {
		if s.Reconf != "" && !(signed && keyFields[s.Reconf]) {
			st.apply(s.Reconf, s.V, shared)
			o.Classes = append(o.Classes, "reconf:"+s.Reconf)
		}
		if st.encField == 0 && st.encSetter == 0 && (signingOps[s.Op.Kind] || s.Op.Kind == "metadata" || s.Op.Kind == "metadata-slo" || s.Op.Kind == "signing-cert") && st.sigField == 0 && st.sigSetter == 0 {
			continue // no key at all: signing without a key is outside the domain
		}
		got := s.Op.runHold(shared, hd)
		want := s.Op.run(st.fresh())
		o.Classes = append(o.Classes, "op:"+s.Op.Kind)
		if w := hd.changed(); w != "" {
			o.Violation = h.V("earlier-result-modified/"+w, "step %d (%s): a result returned earlier by %s was modified by a later call", i+1, s.Op.Kind, w)
			return o
		}
		if got != want {
			o.Violation = h.V("stale-after-reconfiguration/"+s.Op.Kind, "step %d (%s after re-assigning %q): the long-lived instance returns something else than a fresh instance with the same configuration\n long-lived: %.500s\n      fresh: %.500s\n steps: %+v", i+1, s.Op.Kind, s.Reconf, got, want, c.Steps[:i+1])
			return o
		}
		if a, b := snapshot(shared), snapshot(st.fresh()); a != b {
			o.Violation = h.V("configuration-modified/"+s.Op.Kind, "step %d (%s): the exported configuration of the long-lived instance no longer equals what was assigned:\n long-lived: %s\n   assigned: %s", i+1, s.Op.Kind, a, b)
			return o
		}
		if signingOps[s.Op.Kind] {
			signed = true
		}
	}
	o.Classes = dedup(o.Classes)
	return o
}

func TestC17_PReconf(t *testing.T)      { h.RunProp(t, "C17.reconf", genC17Reconf, checkC17Reconf) }
func TestC17_ReplayReconf(t *testing.T) { h.RunReplay(t, "C17.reconf", checkC17Reconf) }

func genRedirectReconf(t *rapid.T) C17Reconf { return genReconfFocus(t, "redirect") }
func genPostReconf(t *rapid.T) C17Reconf     { return genReconfFocus(t, "post") }
func genEndpointReconf(t *rapid.T) C17Reconf { return genReconfFocus(t, "endpoints") }

func TestC14_PReconf(t *testing.T)      { h.RunProp(t, "C14.reconf", genRedirectReconf, checkC17Reconf) }
func TestC14_ReplayReconf(t *testing.T) { h.RunReplay(t, "C14.reconf", checkC17Reconf) }
func TestC16_PReconf(t *testing.T)      { h.RunProp(t, "C16.reconf", genPostReconf, checkC17Reconf) }
func TestC16_ReplayReconf(t *testing.T) { h.RunReplay(t, "C16.reconf", checkC17Reconf) }
func TestC15_PReconf(t *testing.T)      { h.RunProp(t, "C15.reconf", genEndpointReconf, checkC17Reconf) }
func TestC15_ReplayReconf(t *testing.T) { h.RunReplay(t, "C15.reconf", checkC17Reconf) }

func TestC11_PRotate(t *testing.T)      { h.RunProp(t, "C11.rotate", genEncRotation, checkC17Reconf) }
func TestC11_ReplayRotate(t *testing.T) { h.RunReplay(t, "C11.rotate", checkC17Reconf) }
func TestC13_PRotate(t *testing.T)      { h.RunProp(t, "C13.rotate", genSigRotation, checkC17Reconf) }
func TestC13_ReplayRotate(t *testing.T) { h.RunReplay(t, "C13.rotate", checkC17Reconf) }
