package props

import (
	"encoding/base64"
	"fmt"
	"strings"
	"testing"

	"github.com/beevik/etree"
	saml2 "github.com/russellhaering/gosaml2"
	"pgregory.net/rapid"

	h "verif/harness"
)

// C20 — the unverified pre-decode agrees with what full validation later returns.

type C20Case struct {
	SP      h.SPConfig `json:"sp"`
	Kind    string     `json:"kind"`   // response | LogoutResponse
	Source  string     `json:"source"` // genuine | shaped
	Shapes  []string   `json:"shapes"` // attacker-shaped root features applied
	Prolog  string     `json:"prolog"` // raw text before the root
	Epilog  string     `json:"epilog"` // raw text after the root
	Encoded string     `json:"encoded"`
}

var rootShapes = []string{"dup-ID", "dup-Destination", "dup-Version", "dup-InResponseTo", "x:ID-before", "x:ID-after", "x:Destination-before", "x:InResponseTo-after",
	"issuer-twice", "issuer-twice-first-evil", "issuer-comment", "issuer-cdata", "issuer-child", "issuer-child-middle", "issuer-pi-middle", "issuer-pi-leading", "issuer-other-ns-first", "issuer-nested-deeper", "shadow-prefix", "status-before-issuer", "empty-attrs", "no-ID", "empty-ID", "no-InResponseTo", "empty-InResponseTo", "no-Destination", "empty-Destination", "no-IssueInstant", "no-issuer", "xmlns-InResponseTo", "xmlns-Destination", "xmlns-Version", "xmlns-ID", "xmlns-IssueInstant", "xmlns-Value", "enc-issuer-after", "enc-issuer-first", "enc-status-after", "enc-root-attrs"}

var prologs = []string{"", "", `<?xml version="1.0" encoding="UTF-8"?>`, `<?xml version="1.0" encoding="utf-8"?>`, `<?xml version="1.0" encoding="US-ASCII"?>`, `<?xml version="1.0" encoding="ISO-8859-1"?>`,
	`<?xml version="1.0" encoding="UTF-16"?>`, "\xEF\xBB\xBF", "\xEF\xBB\xBF" + `<?xml version="1.0"?>`, `<!DOCTYPE x [<!ENTITY e "v">]>`, "<!-- c -->\n", `<?pi x?>`, "\n \t", evilSecondRoot("Response"), evilSecondRoot("LogoutResponse")}
var epilogs = []string{"", "", "\n", "<!-- trailing -->", "<?pi y?>", " \n<!--a--><!--b-->", evilSecondRoot("Response"), "\n" + evilSecondRoot("LogoutResponse"), evilSecondRoot("Response") + evilSecondRoot("LogoutResponse")}

// evilSecondRoot: a SECOND top-level element after the genuine one (the parsers in use tolerate it): whichever
// element the decoders pick, the pre-decode and validation must pick the same.
func evilSecondRoot(tag string) string {
	return `<samlp:` + tag + ` xmlns:samlp="urn:oasis:names:tc:SAML:2.0:protocol" xmlns:saml="urn:oasis:names:tc:SAML:2.0:assertion" ID="_evil_second_root" InResponseTo="_evil_req" Version="2.0" IssueInstant="2030-03-01T12:00:00Z" Destination="https://evil.example/acs"><saml:Issuer>https://evil-idp.example.net</saml:Issuer><samlp:Status><samlp:StatusCode Value="urn:oasis:names:tc:SAML:2.0:status:Success"/></samlp:Status></samlp:` + tag + `>`
}

func applyRootShape(root *etree.Element, shape string, evil string) {
	pre := func(k, v string) {
		root.Attr = append([]etree.Attr{{Key: k, Value: v}}, root.Attr...)
	}
	post := func(k, v string) { root.Attr = append(root.Attr, etree.Attr{Key: k, Value: v}) }
	declX := func() {
		if root.SelectAttr("xmlns:x") == nil {
			root.Attr = append([]etree.Attr{{Space: "xmlns", Key: "x", Value: "urn:x"}}, root.Attr...)
		}
	}
	issuers := func() []*etree.Element {
		var out []*etree.Element
		for _, c := range root.ChildElements() {
			if c.Tag == "Issuer" {
				out = append(out, c)
			}
		}
		return out
	}
	switch shape {
	case "dup-ID":
		if evil != "pre" {
			post("ID", "_evil")
		} else {
			pre("ID", "_evil")
		}
	case "dup-Destination":
		post("Destination", root.SelectAttrValue("Destination", ""))
		pre("Destination", "https://evil.example/acs")
	case "dup-Version":
		pre("Version", "1.1")
	case "dup-InResponseTo":
		post("InResponseTo", "_evil")
	case "x:ID-before":
		declX()
		root.Attr = append([]etree.Attr{{Space: "x", Key: "ID", Value: "_evil"}}, root.Attr...)
		declX2(root)
	case "x:ID-after":
		declX()
		root.Attr = append(root.Attr, etree.Attr{Space: "x", Key: "ID", Value: "_evil"})
	case "x:Destination-before":
		declX()
		root.Attr = append([]etree.Attr{{Space: "x", Key: "Destination", Value: "https://evil.example/"}}, root.Attr...)
		declX2(root)
	case "x:InResponseTo-after":
		declX()
		root.Attr = append(root.Attr, etree.Attr{Space: "x", Key: "InResponseTo", Value: "_evil"})
	case "issuer-twice", "issuer-twice-first-evil":
		if is := issuers(); len(is) > 0 {
			cp := is[0].Copy()
			if shape == "issuer-twice-first-evil" {
				cp.SetText("https://evil.example/idp")
				root.InsertChildAt(is[0].Index(), cp)
			} else {
				root.InsertChildAt(is[0].Index()+1, cp)
			}
		}
	case "issuer-comment":
		if is := issuers(); len(is) > 0 {
			txt := is[0].Text()
			for len(is[0].Child) > 0 {
				is[0].RemoveChildAt(0)
			}
			cut := len(txt) / 2
			is[0].AddChild(etree.NewText(txt[:cut]))
			is[0].AddChild(etree.NewComment(" evil "))
			is[0].AddChild(etree.NewText(txt[cut:]))
		}
	case "issuer-cdata":
		if is := issuers(); len(is) > 0 {
			txt := is[0].Text()
			for len(is[0].Child) > 0 {
				is[0].RemoveChildAt(0)
			}
			is[0].AddChild(etree.NewCData(txt))
		}
	case "issuer-child":
		if is := issuers(); len(is) > 0 {
			c := etree.NewElement("b")
			c.SetText("evil")
			is[0].AddChild(c)
		}
	case "issuer-child-middle", "issuer-pi-middle", "issuer-pi-leading":
		if is := issuers(); len(is) > 0 {
			txt := is[0].Text()
			for len(is[0].Child) > 0 {
				is[0].RemoveChildAt(0)
			}
			cut := len(txt) / 2
			if shape == "issuer-pi-leading" {
				cut = 0
			}
			is[0].AddChild(etree.NewText(txt[:cut]))
			if shape == "issuer-child-middle" {
				is[0].AddChild(etree.NewElement("x"))
			} else {
				is[0].AddChild(etree.NewProcInst("tenant", "b"))
			}
			is[0].AddChild(etree.NewText(txt[cut:]))
		}
	case "issuer-other-ns-first":
		e := etree.NewElement("Issuer")
		e.CreateAttr("xmlns", "urn:not-saml")
		e.SetText("https://evil.example/idp")
		root.InsertChildAt(0, e)
	case "issuer-nested-deeper":
		ext := etree.NewElement("Extensions")
		ext.Space = root.Space
		e := etree.NewElement("Issuer")
		e.CreateAttr("xmlns", h.NSAssertion)
		e.SetText("https://evil.example/idp")
		ext.AddChild(e)
		root.InsertChildAt(0, ext)
	case "shadow-prefix":
		// an inner element rebinds the assertion prefix for an Issuer look-alike placed first
		e := etree.NewElement("Issuer")
		e.Space = "sh"
		e.CreateAttr("xmlns:sh", "urn:shadow")
		e.SetText("https://evil.example/idp")
		root.InsertChildAt(0, e)
	case "status-before-issuer":
		for _, c := range root.ChildElements() {
			if c.Tag == "Status" {
				root.RemoveChild(c)
				root.InsertChildAt(0, c)
			}
		}
	case "xmlns-InResponseTo", "xmlns-Destination", "xmlns-Version", "xmlns-ID", "xmlns-IssueInstant", "xmlns-Value":
		// an UNUSED namespace declaration whose prefix is the name of a header attribute: exclusive canonicalisation
		// neither signs nor keeps it (so it can be added to a SIGNED message too), a decoder that matches attributes
		// by local name takes it for the attribute
		a := etree.Attr{Space: "xmlns", Key: strings.TrimPrefix(shape, "xmlns-"), Value: map[string]string{"xmlns-Version": "1.1", "xmlns-Destination": "https://evil.example/acs", "xmlns-IssueInstant": "2001-01-01T00:00:00Z"}[shape]}
		if a.Value == "" {
			a.Value = "_evil"
		}
		if evil == "pre" {
			root.Attr = append([]etree.Attr{a}, root.Attr...)
		} else {
			root.Attr = append(root.Attr, a)
		}
	case "empty-attrs":
		post("Consent", "")
	case "no-ID", "no-InResponseTo", "no-Destination", "no-IssueInstant":
		// header attributes that are absent (the root is outside every signature here): whatever full validation
		// makes of that, the pre-decode reports the same
		root.RemoveAttr(strings.TrimPrefix(shape, "no-"))
	case "empty-ID", "empty-InResponseTo", "empty-Destination":
		k := strings.TrimPrefix(shape, "empty-")
		root.RemoveAttr(k)
		post(k, "")
	case "no-issuer":
		for _, is := range issuers() {
			root.RemoveChild(is)
		}
	case "enc-issuer-after", "enc-issuer-first", "enc-status-after", "enc-root-attrs":
		// an EncryptedAssertion (anyone can encrypt to the SP's certificate) whose PLAINTEXT is not an assertion
		// but another Issuer / Status / a whole second Response: what decryption splices in must not change which
		// values the validated result reports
		var plain *etree.Element
		switch shape {
		case "enc-status-after":
			plain = etree.NewElement("samlp:Status")
			plain.CreateAttr("xmlns:samlp", h.NSProtocol)
			plain.CreateElement("samlp:StatusCode").CreateAttr("Value", h.StatusSuccess)
		case "enc-root-attrs":
			plain = etree.NewElement("samlp:Response")
			plain.CreateAttr("xmlns:samlp", h.NSProtocol)
			plain.CreateAttr("ID", "_evil")
			plain.CreateAttr("InResponseTo", "_evil_req")
			plain.CreateAttr("Destination", "https://evil.example/acs")
			plain.CreateAttr("Version", "2.0")
		default:
			plain = etree.NewElement("saml:Issuer")
			plain.CreateAttr("xmlns:saml", h.NSAssertion)
			plain.SetText("https://evil-idp.example.net")
		}
		alg := h.DataAlgs[0]
		e := &h.EncSpec{DataAlg: alg, Transport: h.Transports[0], Digest: "-", To: h.CertRef{Key: "E1", Window: "wide"}, Key: make([]byte, h.KeyLen(alg)), IV: make([]byte, 12)}
		ea, err := e.EncryptElement(h.Serialize(plain, h.Layout{}), h.NSStyle{P: "samlp", A: "saml"})
		if err != nil {
			return
		}
		ea.CreateAttr("xmlns:saml", h.NSAssertion)
		at := len(root.Child)
		if is := issuers(); len(is) > 0 && shape != "enc-issuer-first" {
			at = is[0].Index() + 1
		} else if shape == "enc-issuer-first" {
			at = 0
		}
		root.InsertChildAt(at, ea)
	}
}

// declX2 keeps the xmlns:x declaration in front of a namespaced attribute that was prepended.
func declX2(root *etree.Element) {
	var decl, rest []etree.Attr
	for _, a := range root.Attr {
		if a.Space == "xmlns" && a.Key == "x" {
			decl = append(decl, a)
		} else {
			rest = append(rest, a)
		}
	}
	root.Attr = append(rest[:0:0], append(rest, decl...)...)
}

func genC20(t *rapid.T) C20Case {
	txt := h.TextOpts{MaxLen: 4}
	atxt := txt
	atxt.NoCDEnd = true
	sp := h.GenSPConfig(txt, atxt).Draw(t, "sp")
	store, signers := trustedStore(t)
	sp.Store = store
	c := C20Case{SP: sp, Kind: rapid.SampledFrom([]string{"response", "response", "LogoutResponse"}).Draw(t, "kind")}
	c.Source = rapid.SampledFrom([]string{"genuine", "shaped", "shaped"}).Draw(t, "source")
	var root *etree.Element
	var err error
	allowComments := true
	lay := h.GenLayout(true).Draw(t, "layout")
	pres := h.GenPresentation().Draw(t, "pres")
	if c.Kind == "response" {
		g := h.GenGenuine(sp, signers, h.ModelOpts{Text: txt, AttrText: atxt, MaxAssert: 2}, false).Draw(t, "issue")
		if c.Source == "shaped" {
			// the root must stay outside every signature: skip-signature, or unsigned Response with signed assertions
			if rapid.Bool().Draw(t, "viaSkip") {
				c.SP.Skip = true
				g.Placement, g.RespSig, g.AsrtSig = "none", nil, nil
			} else {
				g.Placement, g.RespSig = "assertions", nil
				g.AsrtSig = nil
				for range g.Model.Assertions {
					g.AsrtSig = append(g.AsrtSig, h.GenSignSpec(signers).Draw(t, "asrtSig"))
				}
			}
		}
		root, err = g.Tree()
		allowComments = g.AllowsComments()
	} else {
		c.SP.SLO = "https://sp.example.com/saml/slo"
		li := &h.LogoutIssue{Model: h.GenLogoutModel(c.SP, "LogoutResponse", txt, atxt).Draw(t, "logout"), NS: h.GenNSStyle().Draw(t, "lns")}
		if c.Source == "shaped" {
			if rapid.Bool().Draw(t, "viaSkip") {
				c.SP.Skip = true
			}
		} else if rapid.Bool().Draw(t, "logoutSigned") {
			li.Sig = h.GenSignSpec(signers).Draw(t, "logoutSig")
			allowComments = !h.C14NKeepsComments(li.Sig.C14N)
		}
		root, err = li.Tree()
	}
	if err != nil {
		t.Fatalf("harness: %v", err)
	}
	if c.Source == "genuine" && rapid.IntRange(0, 2).Draw(t, "xmlnsAfterSigning") == 0 {
		// the message stays as signed, apart from an unused namespace declaration added to its root afterwards
		s := rapid.SampledFrom([]string{"xmlns-InResponseTo", "xmlns-Destination", "xmlns-Version", "xmlns-ID", "xmlns-IssueInstant"}).Draw(t, "xmlnsShape")
		c.Shapes = append(c.Shapes, s)
		applyRootShape(root, s, rapid.SampledFrom([]string{"pre", "post"}).Draw(t, "xmlnsPos"))
	}
	if c.Source == "shaped" {
		c.SP.Enc = h.KeyCfg{Mode: "tls", Field: h.CertRef{Key: "E1", Window: "wide"}} // for the enc-* shapes
		n := rapid.IntRange(1, 3).Draw(t, "nShapes")
		for i := 0; i < n; i++ {
			s := rapid.SampledFrom(rootShapes).Draw(t, "shape")
			c.Shapes = append(c.Shapes, s)
			applyRootShape(root, s, rapid.SampledFrom([]string{"pre", "post"}).Draw(t, "evilPos"))
		}
		c.Prolog = rapid.SampledFrom(prologs).Draw(t, "prolog")
		c.Epilog = rapid.SampledFrom(epilogs).Draw(t, "epilog")
		lay.Decl, lay.BOM = 0, false
	}
	lay.AllowComments = allowComments
	xml := append(append([]byte(c.Prolog), h.Serialize(root, lay)...), c.Epilog...)
	c.Encoded = respell(h.Encode(xml, pres), rapid.SampledFrom([]string{"canonical", "canonical", "wrapped", "crlf-wrapped", "trailing-newline", "nonzero-pad-bits", "crlf-64", "crlf-64+final"}).Draw(t, "b64"))
	return c
}

// respell rewrites a canonical base64 string into another spelling that base64.StdEncoding decodes to the
// same bytes: line wrapping (StdEncoding ignores CR / LF) or non-zero unused bits in the final quantum.
func respell(b64 string, how string) string {
	switch how {
	case "wrapped", "crlf-wrapped", "crlf-64", "crlf-64+final":
		nl, cols := "\n", 76
		if how != "wrapped" {
			nl = "\r\n"
		}
		if strings.HasPrefix(how, "crlf-64") {
			cols = 64
		}
		var sb strings.Builder
		for i := 0; i < len(b64); i += cols {
			end := i + cols
			if end > len(b64) {
				end = len(b64)
			}
			sb.WriteString(b64[i:end] + nl)
		}
		if how == "crlf-64" {
			return strings.TrimSuffix(sb.String(), nl) // no line break after the last line
		}
		return sb.String()
	case "trailing-newline":
		return b64 + "\n"
	case "nonzero-pad-bits":
		const alphabet = "ABCDEFGHIJKLMNOPQRSTUVWXYZabcdefghijklmnopqrstuvwxyz0123456789+/"
		n := len(b64)
		pad := 0
		for pad < 2 && n-pad > 0 && b64[n-1-pad] == '=' {
			pad++
		}
		if pad == 0 || n-pad-1 < 0 {
			return b64
		}
		i := strings.IndexByte(alphabet, b64[n-pad-1])
		if i < 0 {
			return b64
		}
		// the low 2 (one '=') or 4 (two '=') bits of the last digit are unused
		return b64[:n-pad-1] + string(alphabet[i|1]) + b64[n-pad:]
	}
	return b64
}

func checkC20(c C20Case) h.Outcome {
	o := h.Outcome{Classes: []string{"kind:" + c.Kind, "source:" + c.Source, fmt.Sprintf("skip:%v", c.SP.Skip)}}
	for _, s := range c.Shapes {
		o.Classes = append(o.Classes, "shape:"+s)
	}
	if c.Prolog != "" {
		o.Classes = append(o.Classes, "prolog")
	}
	o.NonTrivial = c.Source == "shaped" || c.Prolog != "" || len(c.Shapes) > 0
	encSig := func(base string) string {
		if strings.Contains(c.Prolog, "ISO-8859-1") || strings.Contains(c.Prolog, "US-ASCII") || strings.Contains(c.Prolog, "UTF-16") {
			return "predecode-rejects-declared-encoding"
		}
		return base
	}
	type fields struct {
		ID, InResponseTo, Destination, Version string
		HasIssuer                              bool
		Issuer                                 string
	}
	var full, pre fields
	if c.Kind == "response" {
		r, err := c.SP.Build().ValidateEncodedResponse(c.Encoded)
		if err != nil {
			o.Classes = append(o.Classes, "full:rejected")
			o.NonTrivial = false
			return o
		}
		full = fields{ID: r.ID, InResponseTo: r.InResponseTo, Destination: r.Destination, Version: r.Version}
		if r.Issuer != nil {
			full.HasIssuer, full.Issuer = true, r.Issuer.Value
		}
		p, err := saml2.DecodeUnverifiedBaseResponse(c.Encoded)
		if err != nil {
			o.Violation = h.V(encSig("predecode-fails-on-accepted"), "full validation accepts but DecodeUnverifiedBaseResponse fails: %v (shapes %v, prolog %q)", err, c.Shapes, c.Prolog)
			return o
		}
		pre = fields{ID: p.ID, InResponseTo: p.InResponseTo, Destination: p.Destination, Version: p.Version}
		if p.Issuer != nil {
			pre.HasIssuer, pre.Issuer = true, p.Issuer.Value
		}
	} else {
		r, err := c.SP.Build().ValidateEncodedLogoutResponsePOST(c.Encoded)
		if err != nil {
			o.Classes = append(o.Classes, "full:rejected")
			o.NonTrivial = false
			return o
		}
		full = fields{ID: r.ID, InResponseTo: r.InResponseTo, Destination: r.Destination, Version: r.Version}
		if r.Issuer != nil {
			full.HasIssuer, full.Issuer = true, r.Issuer.Value
		}
		p, err := saml2.DecodeUnverifiedLogoutResponse(c.Encoded)
		if err != nil {
			o.Violation = h.V(encSig("predecode-fails-on-accepted"), "full validation accepts but DecodeUnverifiedLogoutResponse fails: %v (shapes %v, prolog %q)", err, c.Shapes, c.Prolog)
			return o
		}
		pre = fields{ID: p.ID, InResponseTo: p.InResponseTo, Destination: p.Destination, Version: p.Version}
		if p.Issuer != nil {
			pre.HasIssuer, pre.Issuer = true, p.Issuer.Value
		}
	}
	o.Classes = append(o.Classes, "full:accepted")
	if full != pre {
		which := "fields"
		switch {
		case full.ID != pre.ID:
			which = "ID"
		case full.Issuer != pre.Issuer || full.HasIssuer != pre.HasIssuer:
			which = "Issuer"
		case full.Destination != pre.Destination:
			which = "Destination"
		case full.InResponseTo != pre.InResponseTo:
			which = "InResponseTo"
		case full.Version != pre.Version:
			which = "Version"
		}
		o.Violation = h.V("predecode-differs/"+which, "pre-decode %+v, validated %+v (shapes %v, prolog %q)", pre, full, c.Shapes, c.Prolog)
	}
	return o
}

func TestC20(t *testing.T)        { h.RunProp(t, "C20", genC20, checkC20) }
func TestC20_Replay(t *testing.T) { h.RunReplay(t, "C20", checkC20) }

// TestC20_Grid: every root shape x every prolog, under skip and under signed-assertions, for both kinds.
func TestC20_Grid(t *testing.T) {
	var cases []C20Case
	for _, kind := range []string{"response", "LogoutResponse"} {
		for _, via := range []string{"skip", "assertions"} {
			for _, shape := range append([]string{""}, rootShapes...) {
				for _, pro := range prologs {
					if pro != "" && shape != "" && shape != "dup-ID" && shape != "issuer-twice" {
						continue
					}
					sp := h.BaseSP()
					sp.Enc = h.KeyCfg{Mode: "tls", Field: h.CertRef{Key: "E1", Window: "wide"}}
					c := C20Case{SP: sp, Kind: kind, Source: "shaped", Prolog: pro}
					var root *etree.Element
					var err error
					if kind == "response" {
						mode := "none"
						if via == "skip" {
							c.SP.Skip = true
						} else {
							mode = "assertions"
						}
						root, err = gridGenuine(c.SP, 1, mode).Tree()
					} else {
						if via == "skip" {
							c.SP.Skip = true
						}
						root, err = (&h.LogoutIssue{Model: h.PlainLogout(c.SP, kind), NS: h.NSStyle{P: "samlp", A: "saml"}}).Tree()
					}
					if err != nil {
						t.Fatalf("harness: %v", err)
					}
					if shape != "" {
						c.Shapes = []string{shape}
						applyRootShape(root, shape, "post")
					}
					xml := append([]byte(pro), h.Serialize(root, h.Layout{})...)
					c.Encoded = base64.StdEncoding.EncodeToString(xml)
					cases = append(cases, c)
					if shape == "" && pro == "" {
						for _, epi := range epilogs[6:] {
							c2 := c
							c2.Epilog = epi
							c2.Encoded = base64.StdEncoding.EncodeToString(append(append([]byte{}, xml...), epi...))
							cases = append(cases, c2)
							c3 := c
							c3.Epilog = epi
							c3.Encoded = h.Encode(append(append([]byte{}, xml...), epi...), h.Presentation{Deflate: true, Level: 6})
							cases = append(cases, c3)
						}
					}
				}
			}
		}
	}
	h.RunCases(t, "C20", cases, checkC20)
}

// TestC20_GridLarge: uncompressed messages larger than the decoders' 5 MiB inflation limit (the limit is about
// DEFLATE expansion; full validation accepts such messages with the default configuration, so the pre-decode
// must as well), and compressed messages that expand to just under the limit.
func TestC20_GridLarge(t *testing.T) {
	var cases []C20Case
	pad := func(n int) string { return "<!--" + strings.Repeat("p", n) + "-->" }
	for _, kind := range []string{"response", "LogoutResponse"} {
		for vi, via := range []string{"skip", "assertions"} {
			for si, size := range []int{5<<20 - 4096, 5<<20 + 1, 6 << 20} {
				sp := h.BaseSP()
				c := C20Case{SP: sp, Kind: kind, Source: "shaped"}
				var root *etree.Element
				var err error
				if kind == "response" {
					mode := "none"
					if via == "skip" {
						c.SP.Skip = true
					} else {
						mode = "assertions"
					}
					root, err = gridGenuine(c.SP, 1, mode).Tree()
				} else {
					if via == "skip" {
						c.SP.Skip = true
					}
					root, err = (&h.LogoutIssue{Model: h.PlainLogout(c.SP, kind), NS: h.NSStyle{P: "samlp", A: "saml"}}).Tree()
				}
				if err != nil {
					t.Fatalf("harness: %v", err)
				}
				if (vi+si)%2 == 0 {
					c.Prolog = pad(size)
				} else {
					c.Epilog = pad(size)
				}
				xml := append(append([]byte(c.Prolog), h.Serialize(root, h.Layout{})...), c.Epilog...)
				c.Prolog, c.Epilog = fmt.Sprintf("(%d-byte comment)", len(c.Prolog)), fmt.Sprintf("(%d-byte comment)", len(c.Epilog))
				deflate := size < 5<<20 && vi == 0 // within the limit: also the compressed presentation
				c.Encoded = h.Encode(xml, h.Presentation{Deflate: deflate, Level: 6})
				if size > 5<<20 && vi == 1 {
					c.SP.MaxSize = 16 << 20 // an explicit, larger limit must not matter for uncompressed input either
				}
				cases = append(cases, c)
			}
		}
	}
	h.RunCases(t, "C20", cases, checkC20)
}
