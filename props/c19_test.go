package props

import (
	"bytes"
	"encoding/base64"
	"encoding/xml"
	"fmt"
	"testing"
	"time"

	rtvalidator "github.com/mattermost/xml-roundtrip-validator"
	saml2 "github.com/russellhaering/gosaml2"
	"github.com/russellhaering/gosaml2/types"
	dsig "github.com/russellhaering/goxmldsig"
	"pgregory.net/rapid"

	h "verif/harness"
)

// C19 — published metadata matches configuration, the keys really used, and its validity.

type C19Case struct {
	SP    h.SPConfig `json:"sp"`
	SLO   bool       `json:"slo"`   // MetadataWithSLO instead of Metadata
	Hours int64      `json:"hours"` // requested validity (SLO variant)
	Alg   int        `json:"alg"`   // which advertised method to exercise end-to-end
}

func genC19(t *rapid.T) C19Case {
	oc := genOutCase(t, true)
	c := C19Case{SP: oc.SP, SLO: rapid.Bool().Draw(t, "slo"), Alg: rapid.IntRange(0, 4).Draw(t, "algPick")}
	// an encryption key is required by the API ("Required encryption key"); RSA (ECDSA cannot decrypt)
	if c.SP.Enc.None() {
		c.SP.Enc = h.KeyCfg{Mode: rapid.SampledFrom([]string{"tls", "custom", "setter", "both"}).Draw(t, "encMode2"), Field: h.CertRef{Key: "E1", Window: "wide"}, Setter: h.CertRef{Key: "E2", Window: "wide"}}
	}
	if c.SP.Enc.Setter.Key == "S3" {
		c.SP.Enc.Setter = h.CertRef{Key: "E2", Window: "wide"}
	}
	c.SP.Skip = rapid.Bool().Draw(t, "skip")
	c.SP.ValidateEncCert = rapid.Bool().Draw(t, "validateEncCert")
	if rapid.IntRange(0, 2).Draw(t, "encCertWindow") == 0 {
		// the SP's own certificate may be expired / not yet valid at the SP clock: metadata must still say
		// which keys are in use
		w := rapid.SampledFrom([]string{"past", "future", "narrow"}).Draw(t, "encWindow")
		c.SP.Enc.Field.Window, c.SP.Enc.Setter.Window = w, w
	}
	if c.SP.ShareFieldStore {
		c.SP.Sig.Field = c.SP.Enc.Field // one store object: the signing description follows the field
	}
	if rapid.IntRange(0, 2).Draw(t, "namedZone") == 0 {
		// a clock in a DST-observing zone, close to a transition (calendar arithmetic differs from 168 h there)
		c.SP.NowZone = rapid.SampledFrom([]string{"America/New_York", "Europe/Berlin", "Australia/Lord_Howe", "America/Sao_Paulo", "Pacific/Chatham"}).Draw(t, "zone")
		year := rapid.IntRange(2021, 2037).Draw(t, "year")
		anchor := rapid.SampledFrom([][2]int{{3, 8}, {3, 25}, {4, 1}, {10, 1}, {10, 25}, {11, 1}, {9, 20}}).Draw(t, "anchor")
		at := time.Date(year, time.Month(anchor[0]), anchor[1], 0, 0, 0, 0, time.UTC).Add(time.Duration(rapid.Int64Range(-10*24*3600, 10*24*3600).Draw(t, "offsetSec")) * time.Second)
		c.SP.NowUnixNano = at.UnixNano() + rapid.Int64Range(0, 999999999).Draw(t, "ns")
	}
	c.SP.SLO = genOutText(t, "spSLO", true)
	c.Hours = rapid.OneOf(rapid.SampledFrom([]int64{-1 << 63, -876000, -1, 0, 1, 24, 168, 10000, 876000}), rapid.Int64Range(-876000, 876000)).Draw(t, "hours")
	if h.Open("C19", "metadata-validity-hours-as-nanoseconds") && c.SLO && c.Hours > 0 {
		h.CountExcluded("C19", "excluded-by-construction:positive-hours")
		c.Hours = 0
	}
	return c
}

func kdCert(kd types.KeyDescriptor) []byte {
	if len(kd.KeyInfo.X509Data.X509Certificates) == 0 {
		return nil
	}
	b, _ := base64.StdEncoding.DecodeString(kd.KeyInfo.X509Data.X509Certificates[0].Data)
	return b
}

func checkC19(c C19Case) h.Outcome {
	o := h.Outcome{NonTrivial: true}
	if c.SP.NowZone != "" {
		o.Classes = append(o.Classes, "clock:dst-zone")
	}
	o.Classes = append(o.Classes, fmt.Sprintf("slo:%v", c.SLO), "enc:"+c.SP.Enc.Mode, "sig:"+c.SP.Sig.Mode, fmt.Sprintf("signRequests:%v", c.SP.SignRequests), fmt.Sprintf("skip:%v", c.SP.Skip), fmt.Sprintf("validateEncCert:%v", c.SP.ValidateEncCert))
	switch {
	case !c.SLO:
	case c.Hours <= 0:
		o.Classes = append(o.Classes, "hours:<=0")
	default:
		o.Classes = append(o.Classes, "hours:>0")
	}
	sp := c.SP.Build()
	var md *types.EntityDescriptor
	var err error
	if c.SLO {
		md, err = sp.MetadataWithSLO(c.Hours)
	} else {
		md, err = sp.Metadata()
	}
	if err != nil {
		o.Violation = h.V("metadata-error", "%v", err)
		return o
	}
	d := md.SPSSODescriptor
	if d == nil {
		o.Violation = h.V("no-spssodescriptor", "no SPSSODescriptor")
		return o
	}
	keysig := "/enc:" + c.SP.Enc.Mode + "/sig:" + c.SP.Sig.Mode
	// ---- configuration mirror
	if md.EntityID != c.SP.SPIssuer {
		o.Violation = h.V("entityid", "EntityID %q want %q", md.EntityID, c.SP.SPIssuer)
		return o
	}
	if len(d.AssertionConsumerServices) != 1 || d.AssertionConsumerServices[0].Location != c.SP.ACS || d.AssertionConsumerServices[0].Binding != saml2.BindingHttpPost {
		o.Violation = h.V("acs-endpoint", "AssertionConsumerServices %+v want POST %q", d.AssertionConsumerServices, c.SP.ACS)
		return o
	}
	if c.SLO {
		if len(d.SingleLogoutServices) != 1 || d.SingleLogoutServices[0].Location != c.SP.SLO || d.SingleLogoutServices[0].Binding != saml2.BindingHttpPost {
			o.Violation = h.V("slo-endpoint", "SingleLogoutServices %+v want POST %q", d.SingleLogoutServices, c.SP.SLO)
			return o
		}
	}
	if d.AuthnRequestsSigned != c.SP.SignRequests {
		o.Violation = h.V("authnrequestssigned", "AuthnRequestsSigned %v want %v", d.AuthnRequestsSigned, c.SP.SignRequests)
		return o
	}
	if d.WantAssertionsSigned != !c.SP.Skip {
		o.Violation = h.V("wantassertionssigned", "WantAssertionsSigned %v want %v", d.WantAssertionsSigned, !c.SP.Skip)
		return o
	}
	// ---- validity
	now := c.SP.Now()
	wantSec := now.Unix() + 7*24*3600
	if c.SLO && c.Hours > 0 {
		wantSec = now.Unix() + c.Hours*3600
	}
	if md.ValidUntil.Unix() != wantSec || md.ValidUntil.Nanosecond() != now.Nanosecond() {
		sig := "validuntil"
		if c.SLO && c.Hours > 0 {
			sig = "metadata-validity-hours-as-nanoseconds"
		}
		o.Violation = h.V(sig, "ValidUntil %s, want clock %s + %s (UTC)", md.ValidUntil.Format(time.RFC3339Nano), now.UTC().Format(time.RFC3339Nano), map[bool]string{true: fmt.Sprint(c.Hours, "h"), false: "7d"}[c.SLO && c.Hours > 0])
		return o
	}
	// ---- keys
	var signing, encryption []types.KeyDescriptor
	for _, kd := range d.KeyDescriptors {
		switch kd.Use {
		case "signing":
			signing = append(signing, kd)
		case "encryption":
			encryption = append(encryption, kd)
		default:
			o.Violation = h.V("keydescriptor-use", "KeyDescriptor use %q", kd.Use)
			return o
		}
	}
	wantSigner, _ := expectedSigner(c.SP)
	if len(signing) != 1 {
		o.Violation = h.V("no-signing-keydescriptor"+keysig, "%d signing KeyDescriptors although outgoing messages are signed with %v", len(signing), wantSigner)
		return o
	}
	if !bytes.Equal(kdCert(signing[0]), wantSigner.DER()) {
		o.Violation = h.V("signing-cert-differs"+keysig, "published signing certificate is not %v", wantSigner)
		return o
	}
	// cross-check with C13: a message this SP signs now verifies with the published certificate
	doc, err := sp.BuildLogoutRequestDocument("u", "s")
	if err != nil {
		o.Violation = h.V("build-error", "%v", err)
		return o
	}
	xmlStr, _ := doc.WriteToString()
	rd, err := h.RecipientParse([]byte(xmlStr))
	if err != nil {
		o.Violation = h.V("output-not-wellformed", "%v", err)
		return o
	}
	f := h.InspectSignature(rd.Root(), wantSigner.X509(), dsig.NewFakeClockAt(time.Date(2030, 1, 1, 0, 0, 0, 0, time.UTC)))
	if f.VerifiedCrypto != nil || f.VerifiedDigest != nil {
		o.Violation = h.V("published-signing-key-does-not-verify"+keysig, "a LogoutRequest signed by this SP does not verify with the published signing certificate: %v / %v", f.VerifiedCrypto, f.VerifiedDigest)
		return o
	}
	wantEnc, _ := c.SP.Enc.Effective()
	if len(encryption) != 1 || !bytes.Equal(kdCert(encryption[0]), wantEnc.DER()) {
		o.Violation = h.V("encryption-cert-differs"+keysig, "published encryption certificate is not %v (%d descriptors)", wantEnc, len(encryption))
		return o
	}
	// the certificate accessors report the same two certificates
	if b, err := c.SP.Build().GetEncryptionCertBytes(); err != nil || !bytes.Equal(b, wantEnc.DER()) {
		o.Violation = h.V("encryption-cert-differs/accessor"+keysig, "GetEncryptionCertBytes reports something else than the published / decrypting certificate %v (err %v)", wantEnc, err)
		return o
	}
	if b, err := c.SP.Build().GetSigningCertBytes(); err != nil || !bytes.Equal(b, wantSigner.DER()) {
		o.Violation = h.V("signing-cert-differs/accessor"+keysig, "GetSigningCertBytes reports something else than the published / signing certificate %v (err %v)", wantSigner, err)
		return o
	}
	ms := encryption[0].EncryptionMethods
	if len(ms) == 0 {
		o.Violation = h.V("no-encryption-methods", "no EncryptionMethod listed")
		return o
	}
	// cross-check with C11: a response encrypted to the PUBLISHED certificate under a listed method is decrypted
	m := ms[c.Alg%len(ms)].Algorithm
	o.Classes = append(o.Classes, "e2e:"+shortAlg(m))
	known := false
	for _, a := range h.DataAlgs {
		if a == m {
			known = true
		}
	}
	if !known {
		o.Violation = h.V("unknown-method-listed", "metadata lists %q", m)
		return o
	}
	vsp := c.SP
	vsp.ACS, vsp.IdPIssuer = "https://sp.example.com/acs", "https://idp.example.com/metadata"
	vsp.Store = []h.CertRef{{Key: "T1", Window: "wide"}}
	vsp.NowUnixNano, vsp.NowOffset, vsp.NowZone, vsp.Skip, vsp.ValidateEncCert = h.BaseSP().NowUnixNano, 0, "", false, false
	g := gridGenuine(vsp, 1, "assertions")
	ivn := 16
	if h.IsGCM(m) {
		ivn = 12
	}
	g.Enc = []*h.EncSpec{{DataAlg: m, Transport: h.Transports[c.Alg%3], Digest: "-", To: wantEnc, Key: make([]byte, h.KeyLen(m)), IV: make([]byte, ivn)}}
	_, enc, _, err := g.Render()
	if err != nil {
		o.Violation = h.V("harness/render", "%v", err)
		return o
	}
	if _, err := vsp.Build().ValidateEncodedResponse(enc); err != nil {
		o.Violation = h.V("published-encryption-key-does-not-decrypt"+keysig, "a response encrypted to the published certificate with listed method %s is rejected: %v", m, err)
		return o
	}
	// ---- XML round trip
	b, err := xml.Marshal(md)
	if err != nil {
		o.Violation = h.V("marshal-error", "%v", err)
		return o
	}
	if err := rtvalidator.Validate(bytes.NewReader(b)); err != nil {
		o.Violation = h.V("metadata-xml-not-roundtrip-safe", "%v", err)
		return o
	}
	var back types.EntityDescriptor
	if err := xml.Unmarshal(b, &back); err != nil {
		o.Violation = h.V("metadata-xml-unparsable", "%v", err)
		return o
	}
	bd := back.SPSSODescriptor
	switch {
	case bd == nil:
		o.Violation = h.V("roundtrip/descriptor", "SPSSODescriptor lost")
	case back.EntityID != md.EntityID:
		o.Violation = h.V("roundtrip/entityid", "EntityID %q -> %q", md.EntityID, back.EntityID)
	case !back.ValidUntil.Equal(md.ValidUntil):
		o.Violation = h.V("roundtrip/validuntil", "ValidUntil %v -> %v", md.ValidUntil, back.ValidUntil)
	case bd.AuthnRequestsSigned != d.AuthnRequestsSigned || bd.WantAssertionsSigned != d.WantAssertionsSigned:
		o.Violation = h.V("roundtrip/flags", "flags changed")
	case len(bd.AssertionConsumerServices) != 1 || bd.AssertionConsumerServices[0] != d.AssertionConsumerServices[0]:
		o.Violation = h.V("roundtrip/acs", "ACS %+v -> %+v", d.AssertionConsumerServices, bd.AssertionConsumerServices)
	case len(bd.SingleLogoutServices) != len(d.SingleLogoutServices) || (len(d.SingleLogoutServices) == 1 && bd.SingleLogoutServices[0] != d.SingleLogoutServices[0]):
		o.Violation = h.V("roundtrip/slo", "SLO %+v -> %+v", d.SingleLogoutServices, bd.SingleLogoutServices)
	case len(bd.KeyDescriptors) != len(d.KeyDescriptors):
		o.Violation = h.V("roundtrip/keys", "KeyDescriptors %d -> %d", len(d.KeyDescriptors), len(bd.KeyDescriptors))
	default:
		for i := range d.KeyDescriptors {
			if bd.KeyDescriptors[i].Use != d.KeyDescriptors[i].Use || !bytes.Equal(kdCert(bd.KeyDescriptors[i]), kdCert(d.KeyDescriptors[i])) || len(bd.KeyDescriptors[i].EncryptionMethods) != len(d.KeyDescriptors[i].EncryptionMethods) {
				o.Violation = h.V("roundtrip/keydescriptor", "KeyDescriptor %d changed", i)
			}
		}
	}
	if o.Violation != nil {
		return o
	}
	// ---- the returned structure is the caller's: editing it in place (filtering the method list for one IdP,
	// sorting, re-labelling) must not show in what this or any other service provider publishes next
	for i := range d.KeyDescriptors {
		ms := d.KeyDescriptors[i].EncryptionMethods
		for j := range ms {
			ms[j].Algorithm = "http://www.w3.org/2001/04/xmlenc#tripledes-cbc"
			ms[j].DigestMethod = &types.DigestMethod{Algorithm: "urn:edited"}
		}
		kept := ms[:0]
		for j := range ms {
			if j%2 == 0 {
				kept = append(kept, ms[j])
			}
		}
		d.KeyDescriptors[i].EncryptionMethods = kept
		for k := range d.KeyDescriptors[i].KeyInfo.X509Data.X509Certificates {
			d.KeyDescriptors[i].KeyInfo.X509Data.X509Certificates[k].Data = "ZWRpdGVk"
		}
	}
	for j := range d.AssertionConsumerServices {
		d.AssertionConsumerServices[j].Location = "https://edited.example/"
	}
	for _, again := range []*saml2.SAMLServiceProvider{sp, c.SP.Build()} {
		var md2 *types.EntityDescriptor
		if c.SLO {
			md2, err = again.MetadataWithSLO(c.Hours)
		} else {
			md2, err = again.Metadata()
		}
		if err != nil {
			o.Violation = h.V("metadata-error/second", "%v", err)
			return o
		}
		b2, _ := xml.Marshal(md2)
		if !bytes.Equal(b2, b) {
			o.Violation = h.V("edited-result-leaks", "after the caller edited the returned descriptor in place, the next metadata differs from the first:\n first %.600s\n  next %.600s", b, b2)
			return o
		}
	}
	return o
}

func TestC19(t *testing.T)        { h.RunProp(t, "C19", genC19, checkC19) }
func TestC19_Replay(t *testing.T) { h.RunReplay(t, "C19", checkC19) }

// TestC19_Grid: whole key matrix x both variants x hours {min,-1,0,1,24,168,10000,876000}.
func TestC19_Grid(t *testing.T) {
	var cases []C19Case
	i := 0
	for _, em := range []string{"tls", "custom", "setter", "both"} {
		for _, sm := range keyModes {
			for _, slo := range []bool{false, true} {
				for _, hrs := range []int64{-1 << 63, -1, 0, 1, 24, 168, 10000, 876000} {
					if !slo && hrs != 0 {
						continue
					}
					if h.Open("C19", "metadata-validity-hours-as-nanoseconds") && hrs > 0 {
						h.CountExcluded("C19", "excluded-by-construction:positive-hours")
						continue
					}
					i++
					sp := h.BaseSP()
					w := h.SPWindows[(i/2)%len(h.SPWindows)]
					sp.Enc = h.KeyCfg{Mode: em, Field: h.CertRef{Key: "E1", Window: w}, Setter: h.CertRef{Key: "E2", Window: w}, Chain: i%2 == 1}
					sp.Sig = h.KeyCfg{Mode: sm, Field: h.CertRef{Key: "S1", Window: w}, Setter: h.CertRef{Key: "S2", Window: w}, Chain: i%4 >= 2}
					sp.SignRequests, sp.Skip = i%2 == 0, i%3 == 0
					sp.NowOffset = []int{0, 330, -480}[i%3]
					cases = append(cases, C19Case{SP: sp, SLO: slo, Hours: hrs, Alg: i})
				}
			}
		}
	}
	for _, w := range []string{"past", "future", "narrow"} {
		for _, em := range []string{"tls", "custom", "setter", "both"} {
			for _, slo := range []bool{false, true} {
				sp := h.BaseSP()
				sp.Enc = h.KeyCfg{Mode: em, Field: h.CertRef{Key: "E1", Window: w}, Setter: h.CertRef{Key: "E2", Window: w}}
				sp.ValidateEncCert = true
				cases = append(cases, C19Case{SP: sp, SLO: slo, Hours: 12})
			}
		}
	}
	// default validity across every DST transition week of two zones, both variants
	for _, zone := range []string{"America/New_York", "Europe/Berlin", "Australia/Lord_Howe"} {
		for _, d := range [][3]int{{2026, 3, 5}, {2026, 3, 27}, {2026, 10, 22}, {2026, 10, 29}, {2026, 4, 2}, {2026, 9, 30}} {
			for _, slo := range []bool{false, true} {
				sp := h.BaseSP()
				sp.Enc = h.KeyCfg{Mode: "tls", Field: h.CertRef{Key: "E1", Window: "wide"}}
				sp.NowZone = zone
				sp.NowUnixNano = time.Date(d[0], time.Month(d[1]), d[2], 17, 0, 0, 0, time.UTC).UnixNano()
				cases = append(cases, C19Case{SP: sp, SLO: slo, Hours: 0})
			}
		}
	}
	h.RunCases(t, "C19", cases, checkC19)
}
