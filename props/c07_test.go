package props

import (
	"crypto/rsa"
	"fmt"
	"strings"
	"testing"
	"time"

	"github.com/beevik/etree"
	saml2 "github.com/russellhaering/gosaml2"
	dsig "github.com/russellhaering/goxmldsig"
	"pgregory.net/rapid"

	h "verif/harness"
)

// C07 — encryption confers no trust; decryption is bound to the SP's own valid key.

type C07Case struct {
	SP          h.SPConfig `json:"sp"`
	Window      string     `json:"window"`    // validity window of BOTH the SP encryption cert and the IdP cert in this case
	ClockPos    string     `json:"clockPos"`  // position of the clock relative to that window
	SPCert      string     `json:"spCert"`    // valid | empty | garbage | nocert-tls
	StoreKind   string     `json:"storeKind"` // tls | custom
	Plain       string     `json:"plain"`     // signed | unsigned | forged | attacker-signed | non-assertion | nested-wrapper
	Place       string     `json:"place"`     // direct | nested | in-forged
	RespSig     string     `json:"respSig"`   // none | trusted | attacker
	Recip       string     `json:"recip"`     // absent | sp | other | undecodable | sp-otherwindow
	Enc         h.EncSpec  `json:"enc"`
	Encoded     string     `json:"encoded"`
	GenuineName string     `json:"genuineName"`
	IdPWide     bool       `json:"idpWide"` // the IdP certificate uses the wide window instead of Window
	// StaleLeaf: the TLS key store's parsed Leaf is a currently VALID certificate of the same key (left over from a
	// rotation) while Certificate[0] — what is published and what recipients are matched against — is as SPCert /
	// Window say. Certificate[0] is the SP's certificate.
	StaleLeaf bool `json:"staleLeaf,omitempty"`
	// Filler: a plaintext assertion with this many attribute values stands in the (trusted-signed) Response in
	// front of this case's encrypted element: more elements than the signature library's traversal budget. Whatever
	// the library does with such a tree, an encrypted assertion that is not a direct child stays refused.
	Filler int `json:"filler,omitempty"`
}

// garbageStore returns fixed certificate bytes with a real key.
type fixedStore struct {
	key  *rsa.PrivateKey
	cert []byte
}

func (f *fixedStore) GetKeyPair() (*rsa.PrivateKey, []byte, error) { return f.key, f.cert, nil }

func (c *C07Case) buildSP() *saml2.SAMLServiceProvider {
	sp := c.SP.Build()
	k := h.K("E1")
	der := k.DER[c.Window]
	switch c.SPCert {
	case "empty":
		der = []byte{}
	case "garbage":
		der = []byte("this is not a certificate")
	}
	switch {
	case c.SPCert == "nocert-tls":
		sp.SPKeyStore = dsig.TLSCertKeyStore{PrivateKey: k.Signer}
	case c.StoreKind == "custom":
		sp.SPKeyStore = &fixedStore{key: k.RSA, cert: der}
	default:
		st := dsig.TLSCertKeyStore{Certificate: [][]byte{der}, PrivateKey: k.Signer}
		if c.StaleLeaf {
			st.Leaf = k.Cert["wide"]
			if c.Window == "wide" || c.Window == "long" {
				st.Leaf = k.Cert["long"]
			}
		}
		sp.SPKeyStore = st
	}
	return sp
}

func genC07(t *rapid.T) C07Case {
	c := C07Case{SP: h.BaseSP()}
	c.Window = rapid.SampledFrom(append([]string{"long"}, h.Windows...)).Draw(t, "window")
	c.ClockPos = rapid.SampledFrom(append([]string{"inside", "inside", "inside"}, clockPositions...)).Draw(t, "clockPos")
	c.SP.ValidateEncCert = rapid.Bool().Draw(t, "validateEncCert")
	c.SPCert = rapid.SampledFrom([]string{"valid", "valid", "valid", "valid", "empty", "garbage", "nocert-tls"}).Draw(t, "spCert")
	c.StoreKind = rapid.SampledFrom([]string{"tls", "custom"}).Draw(t, "storeKind")
	c.Plain = rapid.SampledFrom([]string{"signed", "signed", "unsigned", "forged", "attacker-signed", "non-assertion", "nested-wrapper"}).Draw(t, "plain")
	c.Place = rapid.SampledFrom([]string{"direct", "direct", "direct", "nested", "in-forged", "direct+nested-after", "nested-before+direct", "direct+direct-after", "direct-before+direct", "in-encrypted-sibling", "in-encrypted-keyinfo", "in-encrypted-first"}).Draw(t, "place")
	c.RespSig = rapid.SampledFrom([]string{"none", "none", "trusted", "attacker"}).Draw(t, "respSig")
	c.Recip = rapid.SampledFrom([]string{"absent", "absent", "sp", "other", "undecodable", "sp-otherwindow"}).Draw(t, "recip")
	c.IdPWide = rapid.Bool().Draw(t, "idpWide")
	c.StaleLeaf = c.StoreKind == "tls" && rapid.IntRange(0, 3).Draw(t, "staleLeaf") == 0
	if c.RespSig == "trusted" && rapid.IntRange(0, 3).Draw(t, "filler") == 0 {
		c.Filler = rapid.SampledFrom([]int{200, 990, 1010, 1300}).Draw(t, "fillerN")
	}
	e := h.GenEncSpec(h.CertRef{Key: "E1", Window: c.Window}).Draw(t, "enc")
	c.Enc = *e
	if err := c.build(); err != nil {
		t.Fatalf("harness: %v", err)
	}
	return c
}

func (c *C07Case) build() error {
	c.SP.NowUnixNano = clockAt(c.Window, c.ClockPos).UnixNano()
	idp := h.CertRef{Key: "T1", Window: c.Window}
	if c.IdPWide {
		idp.Window = "wide"
	}
	if c.Window == "long" {
		idp.Window = "longer" // valid on both sides of the three-century SP certificate window
	}
	c.SP.Store = []h.CertRef{idp, {Key: "U1", Window: "wide"}}
	trusted := h.DefaultSign("T1")
	trusted.Embed = &idp
	trusted.Signer = idp
	c.GenuineName = "genuine-user@example.com"
	// the genuine assertion (its own trusted signature, or not)
	g := gridGenuine(c.SP, 1, "none")
	g.Model.Assertions[0].NameID = h.S(c.GenuineName)
	root, err := g.Tree()
	if err != nil {
		return err
	}
	a := h.AssertionElements(root)[0]
	ctx := &h.AttackCtx{SP: c.SP}
	var plainEl *etree.Element
	switch c.Plain {
	case "signed":
		if err := h.SignInPlace(a, trusted); err != nil {
			return err
		}
		plainEl, _ = h.DetachedCopy(a)
	case "unsigned":
		plainEl, _ = h.DetachedCopy(a)
	case "forged", "attacker-signed":
		root.RemoveChild(a)
		f := ctx.Apply(root, h.Op{Kind: "forge-assertion", C: 7, S: "attacker@evil.example"})
		_ = f
		a = h.AssertionElements(root)[0]
		if c.Plain == "attacker-signed" {
			if err := h.SignInPlace(a, h.DefaultSign("A")); err != nil {
				return err
			}
		}
		plainEl, _ = h.DetachedCopy(a)
	case "non-assertion":
		plainEl = etree.NewElement("samlp:Extensions")
		plainEl.CreateAttr("xmlns:samlp", h.NSProtocol)
		plainEl.CreateElement("samlp:Foo").SetText("bar")
	case "nested-wrapper":
		// a wrapper element holding a forged assertion next to a genuinely signed one
		if err := h.SignInPlace(a, trusted); err != nil {
			return err
		}
		det, _ := h.DetachedCopy(a)
		plainEl = etree.NewElement("samlp:Extensions")
		plainEl.CreateAttr("xmlns:samlp", h.NSProtocol)
		plainEl.AddChild(det)
	}
	e := c.Enc
	switch c.Recip {
	case "absent":
		e.Recipient, e.RecipRaw = nil, ""
	case "sp":
		r := h.CertRef{Key: "E1", Window: c.Window}
		e.Recipient, e.RecipRaw = &r, ""
	case "other":
		r := h.CertRef{Key: "E2", Window: c.Window}
		e.Recipient, e.RecipRaw = &r, ""
	case "sp-otherwindow": // same key, different certificate
		w := "wide"
		if c.Window == "wide" {
			w = "narrow"
		}
		r := h.CertRef{Key: "E1", Window: w}
		e.Recipient, e.RecipRaw = &r, ""
	case "undecodable":
		e.Recipient, e.RecipRaw = nil, "!!!not base64!!!"
	}
	c.Enc = e
	ea, err := e.EncryptElement(h.Serialize(plainEl, h.Layout{}), g.NS)
	if err != nil {
		return err
	}
	if p := a.Parent(); p != nil {
		p.RemoveChild(a)
	}
	if c.Filler > 0 {
		gf := gridGenuine(c.SP, 1, "none")
		vals := make([]string, c.Filler)
		for i := range vals {
			vals[i] = fmt.Sprintf("group-%d", i)
		}
		gf.Model.Assertions[0].ID, gf.Model.Assertions[0].NameID = h.S("_filler"), h.S(c.GenuineName)
		gf.Model.Assertions[0].Attrs = []h.AttrModel{{Name: "groups", Values: vals}}
		rf, err := gf.Tree()
		if err != nil {
			return err
		}
		fa := h.AssertionElements(rf)[0]
		rf.RemoveChild(fa)
		root.AddChild(fa)
	}
	switch c.Place {
	case "direct":
		root.AddChild(ea)
	case "nested":
		ext := etree.NewElement("samlp:Extensions")
		ext.AddChild(ea)
		root.AddChild(ext)
	case "direct+nested-after", "nested-before+direct", "direct+direct-after", "direct-before+direct", "in-encrypted-sibling", "in-encrypted-keyinfo", "in-encrypted-first":
		// a genuine trusted-signed assertion, encrypted, as direct child — plus this case's encrypted element
		// one level down (in Extensions), after or before it
		g2 := gridGenuine(c.SP, 1, "none")
		g2.Model.Assertions[0].ID = h.S("_second")
		g2.Model.Assertions[0].NameID = h.S(c.GenuineName)
		r2, err := g2.Tree()
		if err != nil {
			return err
		}
		a2 := h.AssertionElements(r2)[0]
		if err := h.SignInPlace(a2, trusted); err != nil {
			return err
		}
		det2, _ := h.DetachedCopy(a2)
		e2 := c.Enc
		e2.Recipient, e2.RecipRaw = nil, ""
		if strings.Contains(c.Place, "direct-") || strings.HasPrefix(c.Place, "in-encrypted") {
			// both are direct children; the genuine one carries its key in-line and shares the
			// content-encryption key and algorithm with this case's element (nothing forbids an IdP,
			// or anyone else, to re-use a session key): state kept from one element must not serve the next
			e2.Detached = false
		}
		ea2, err := e2.EncryptElement(h.Serialize(det2, h.Layout{}), g.NS)
		if err != nil {
			return err
		}
		if strings.HasPrefix(c.Place, "in-encrypted") {
			// this case's element parked INSIDE the genuine direct-child EncryptedAssertion (which decrypts fine):
			// beside its EncryptedData, in front of it, or inside EncryptedData/KeyInfo
			ed := findFirst(ea2, "EncryptedData")
			switch c.Place {
			case "in-encrypted-sibling":
				ea2.AddChild(ea)
			case "in-encrypted-first":
				ea2.InsertChildAt(0, ea)
			default:
				if ki := findFirst(ed, "KeyInfo"); ki != nil {
					ki.AddChild(ea)
				} else {
					ed.AddChild(ea)
				}
			}
			root.AddChild(ea2)
			break
		}
		var other etree.Token = ea
		if !strings.Contains(c.Place, "direct-") {
			ext := etree.NewElement("samlp:Extensions")
			ext.AddChild(ea)
			other = ext
		}
		if c.Place == "direct+nested-after" || c.Place == "direct+direct-after" {
			root.AddChild(ea2)
			root.AddChild(other)
		} else {
			root.AddChild(other)
			root.AddChild(ea2)
		}
	case "in-forged":
		fa := etree.NewElement("saml:Assertion")
		fa.CreateAttr("ID", "_holder")
		fa.CreateAttr("Version", "2.0")
		fa.CreateElement("saml:Advice").AddChild(ea)
		root.AddChild(fa)
	}
	switch c.RespSig {
	case "trusted":
		if err := h.SignInPlace(root, trusted); err != nil {
			return err
		}
	case "attacker":
		if err := h.SignInPlace(root, h.DefaultSign("A")); err != nil {
			return err
		}
	}
	c.Encoded = h.Encode(h.Serialize(root, h.Layout{}), h.Presentation{})
	return nil
}

func (c *C07Case) clockInside() bool {
	nb, na := h.WindowBounds(c.Window)
	now := c.SP.Now()
	return !now.Before(nb) && !now.After(na)
}

func checkC07(c C07Case) h.Outcome {
	return judgeC07(c, func() *saml2.SAMLServiceProvider { return c.buildSP() })
}

func judgeC07(c C07Case, newSP func() *saml2.SAMLServiceProvider) h.Outcome {
	o := h.Outcome{NonTrivial: true}
	o.Classes = []string{"plain:" + c.Plain, "place:" + c.Place, "respSig:" + c.RespSig, "recip:" + c.Recip, "spCert:" + c.SPCert, "store:" + c.StoreKind,
		fmt.Sprintf("validate:%v", c.SP.ValidateEncCert), fmt.Sprintf("staleLeaf:%v", c.StaleLeaf), "clock:" + c.ClockPos, "window:" + c.Window, "alg:" + shortAlg(c.Enc.DataAlg), "transport:" + shortAlg(c.Enc.Transport)}
	inside := c.clockInside()
	idpOK := inside
	if c.IdPWide {
		nb, na := h.WindowBounds("wide")
		idpOK = !c.SP.Now().Before(nb) && !c.SP.Now().After(na)
	}
	if c.Window == "long" {
		nb, na := h.WindowBounds("longer")
		idpOK = !c.SP.Now().Before(nb) && !c.SP.Now().After(na)
	}
	o.Classes = append(o.Classes, fmt.Sprintf("idpOK:%v", idpOK), fmt.Sprintf("spCertInside:%v", inside))
	resp, err := newSP().ValidateEncodedResponse(c.Encoded)
	info, err2 := newSP().RetrieveAssertionInfo(c.Encoded)
	if (err == nil) != (err2 == nil) {
		o.Violation = h.V("entry-points-disagree", "ValidateEncodedResponse err=%v, RetrieveAssertionInfo err=%v", err, err2)
		return o
	}
	accepted := err == nil
	if accepted {
		o.Classes = append(o.Classes, "accepted")
	} else {
		o.Classes = append(o.Classes, "rejected:"+rejectStage(err))
	}
	// ---- soundness on success: only the genuine assertion, covered by a trusted signature, may come back
	if accepted {
		// with a genuine signed companion as a second direct child, a plaintext that is not an assertion at
		// all is simply not honoured; the companion alone justifies acceptance
		companion := strings.Contains(c.Place, "direct-") && (c.Plain == "non-assertion" || c.Plain == "nested-wrapper")
		plainTrusted := (c.Plain == "signed" || companion) && idpOK
		respTrusted := c.RespSig == "trusted" && idpOK
		if !plainTrusted && !respTrusted {
			o.Violation = h.V("untrusted-plaintext-accepted/"+c.Plain+"/"+c.RespSig, "accepted although neither the plaintext (%s) nor the Response (%s) carries a trusted valid signature", c.Plain, c.RespSig)
			return o
		}
		for _, a := range resp.Assertions {
			name := ""
			if a.Subject != nil && a.Subject.NameID != nil {
				name = a.Subject.NameID.Value
			}
			if !respTrusted && name != c.GenuineName {
				o.Violation = h.V("foreign-assertion-returned", "returned assertion NameID %q is not the trusted-signed one", name)
				return o
			}
		}
		if !respTrusted && info.NameID != c.GenuineName {
			o.Violation = h.V("foreign-assertion-returned", "AssertionInfo.NameID %q", info.NameID)
			return o
		}
		allFlagged := true
		for _, a := range resp.Assertions {
			allFlagged = allFlagged && a.SignatureValidated
		}
		if (resp.SignatureValidated && !respTrusted) || (!resp.SignatureValidated && !(allFlagged && plainTrusted)) {
			o.Violation = h.V("flag-mismatch", "Response flag %v, all assertions flagged %v, but Response trusted=%v plaintext trusted=%v", resp.SignatureValidated, allFlagged, respTrusted, plainTrusted)
			return o
		}
	}
	// ---- must-reject table
	reject := func(sig, why string) {
		if accepted && o.Violation == nil {
			o.Violation = h.V("must-reject/"+sig, "accepted although %s", why)
		}
	}
	direct := c.Place == "direct" || c.Place == "direct+direct-after" || c.Place == "direct-before+direct"
	if c.RespSig != "trusted" && !direct {
		reject("not-direct-child", "the encrypted assertion is "+c.Place+" rather than a direct child of an unsigned Response")
	}
	if c.RespSig == "trusted" && (c.Place == "nested" || c.Place == "direct+nested-after" || c.Place == "nested-before+direct" || c.Place == "in-forged") {
		reject("not-direct-child/signed-response", "the encrypted assertion is "+c.Place+" rather than a direct child of the (signed) Response")
	}
	if c.RespSig == "attacker" {
		reject("attacker-signed-response", "the Response signature is by an untrusted key")
	}
	if direct || c.RespSig == "trusted" {
		// decryption is attempted for every EncryptedAssertion anywhere in the verified/unsigned tree
		switch c.Recip {
		case "other", "sp-otherwindow":
			if c.SPCert == "valid" || c.SPCert == "garbage" || c.SPCert == "empty" {
				reject("recipient-mismatch", "the EncryptedKey names a recipient certificate different from the SP's")
			}
		case "undecodable":
			reject("recipient-undecodable", "the EncryptedKey recipient certificate is not decodable")
		}
		if c.SP.ValidateEncCert {
			switch {
			case c.SPCert == "empty" || c.SPCert == "nocert-tls":
				reject("validate/empty-cert", "ValidateEncryptionCert is on and the SP certificate is empty")
			case c.SPCert == "garbage":
				reject("validate/unparsable-cert", "ValidateEncryptionCert is on and the SP certificate does not parse")
			case !inside:
				reject("validate/outside-window", fmt.Sprintf("ValidateEncryptionCert is on and the SP clock %s is outside the SP certificate window", c.SP.Now().Format(time.RFC3339Nano)))
			}
		}
	}
	if c.RespSig == "none" && c.Plain != "signed" && !(strings.Contains(c.Place, "direct-") && (c.Plain == "non-assertion" || c.Plain == "nested-wrapper")) {
		reject("untrusted-plaintext", "an unsigned Response carries an encrypted assertion whose plaintext ("+c.Plain+") has no IdP signature")
	}
	if o.Violation != nil {
		return o
	}
	// ---- must-accept table (so that "reject everything" fails)
	encOK := !c.SP.ValidateEncCert || inside
	if c.Filler > 0 {
		o.Classes = append(o.Classes, fmt.Sprintf("filler:%d", c.Filler))
		return o // beyond the traversal budget the library may refuse the whole message: nothing must be accepted
	}
	if c.Plain == "signed" && c.Place == "direct" && c.RespSig != "attacker" && (c.Recip == "absent" || c.Recip == "sp") && c.SPCert == "valid" && idpOK && encOK {
		if !accepted {
			o.Violation = h.V("must-accept/genuine-encrypted", "rejected a genuinely signed assertion encrypted to the SP (validate=%v, clock %s): %v", c.SP.ValidateEncCert, c.ClockPos, err)
			return o
		}
	}
	if c.Plain == "unsigned" && c.Place == "direct" && c.RespSig == "trusted" && (c.Recip == "absent" || c.Recip == "sp") && c.SPCert == "valid" && idpOK && encOK {
		if !accepted {
			o.Violation = h.V("must-accept/response-signed-encrypted", "rejected a trusted-signed Response with an encrypted assertion: %v", err)
		}
	}
	return o
}

// C07Flip: a custom key store whose answer CHANGES from call to call (a rotation in progress behind a
// store that reads from disk or a secrets manager): it alternates between (key E1, a certificate of E1 that is outside
// its validity at the SP clock) and (key E2, a valid certificate of E2). With ValidateEncryptionCert on, a message
// that only E1's key can open must never be accepted — E1's only certificate is not valid — whichever answer comes
// first and however often the library asks.
type C07Flip struct {
	SP         h.SPConfig `json:"sp"`
	FirstStale bool       `json:"firstStale"`
	StaleWin   string     `json:"staleWindow"` // past | future
	ToStale    bool       `json:"toStale"`     // encrypted to E1 (the stale pair) or to E2
	Enc        h.EncSpec  `json:"enc"`
	Calls      int        `json:"calls"`
	Encoded    string     `json:"encoded"`
}

type flipStore struct {
	pairs [2]struct {
		key  *rsa.PrivateKey
		cert []byte
	}
	n int
}

func (f *flipStore) GetKeyPair() (*rsa.PrivateKey, []byte, error) {
	p := f.pairs[f.n%2]
	f.n++
	return p.key, p.cert, nil
}

func genC07Flip(t *rapid.T) C07Flip {
	c := C07Flip{SP: h.BaseSP(), FirstStale: rapid.Bool().Draw(t, "firstStale"), StaleWin: rapid.SampledFrom([]string{"past", "future"}).Draw(t, "staleWindow"),
		ToStale: rapid.IntRange(0, 3).Draw(t, "toStale") != 0, Calls: rapid.IntRange(1, 4).Draw(t, "calls")}
	c.SP.ValidateEncCert = true
	to := h.CertRef{Key: "E2", Window: "wide"}
	if c.ToStale {
		to = h.CertRef{Key: "E1", Window: c.StaleWin}
	}
	e := h.GenEncSpec(to).Draw(t, "enc")
	c.Enc = *e
	g := gridGenuine(c.SP, 1, "assertions")
	g.Enc = []*h.EncSpec{&c.Enc}
	_, enc, _, err := g.Render()
	if err != nil {
		t.Fatalf("harness: %v", err)
	}
	c.Encoded = enc
	return c
}

func checkC07Flip(c C07Flip) h.Outcome {
	o := h.Outcome{NonTrivial: c.ToStale, Classes: []string{fmt.Sprintf("toStale:%v/firstStale:%v", c.ToStale, c.FirstStale), "stale:" + c.StaleWin}}
	sp := c.SP.Build()
	st := &flipStore{}
	stale := 1
	if c.FirstStale {
		stale = 0
	}
	st.pairs[stale].key, st.pairs[stale].cert = h.K("E1").RSA, h.K("E1").DER[c.StaleWin]
	st.pairs[1-stale].key, st.pairs[1-stale].cert = h.K("E2").RSA, h.K("E2").DER["wide"]
	sp.SPKeyStore = st
	for i := 0; i < c.Calls; i++ {
		var err error
		if i%2 == 0 {
			_, err = sp.ValidateEncodedResponse(c.Encoded)
		} else {
			_, err = sp.RetrieveAssertionInfo(c.Encoded)
		}
		o.Classes = append(o.Classes, fmt.Sprintf("accepted:%v", err == nil))
		if err == nil && c.ToStale {
			o.Violation = h.V("stale-pair-decrypted", "call %d accepted an assertion that only the key of the certificate outside its validity (%s) can open, with ValidateEncryptionCert on (store asked %d times)", i+1, c.StaleWin, st.n)
			return o
		}
	}
	o.Classes = dedup(o.Classes)
	return o
}

func TestC07_PFlip(t *testing.T)      { h.RunProp(t, "C07.flip", genC07Flip, checkC07Flip) }
func TestC07_ReplayFlip(t *testing.T) { h.RunReplay(t, "C07.flip", checkC07Flip) }

func TestC07(t *testing.T) { h.RunProp(t, "C07", genC07, checkC07) }
func TestC07_Replay(t *testing.T) {
	h.RunReplay(t, "C07", checkC07)
	h.RunReplay(t, "C07.attack", checkC01)
}

// TestC07_PAttack: general attacker programs against an SP that has an encryption key, with encryption-heavy operators.
func TestC07_PAttack(t *testing.T) {
	h.RunProp(t, "C07.attack", func(t *rapid.T) AttackCase {
		return genAttackCase(t, attackOpts{encKey: true, maxOps: 4, opKinds: []string{"encrypt", "encrypt", "encrypt", "forge-assertion", "strip-sig", "nest-el", "nest-assertion", "nest-assertion", "dup-el", "splice", "dup-el", "wrap-root", "resign", "edit-text", "rename-el"}})
	}, checkC01)
}

// TestC07_Grid: validity-window boundary x option x certificate-state grid for a genuine encrypted assertion.
func TestC07_Grid(t *testing.T) {
	var cases []C07Case
	i := 0
	for _, w := range append([]string{"long"}, h.Windows...) {
		for _, pos := range clockPositions {
			for _, validate := range []bool{false, true} {
				for _, spc := range []string{"valid", "empty", "garbage", "nocert-tls"} {
					for _, store := range []string{"tls", "custom"} {
						for _, recip := range []string{"absent", "sp", "other"} {
							i++
							alg := h.DataAlgs[i%len(h.DataAlgs)]
							iv := 16
							if h.IsGCM(alg) {
								iv = 12
							}
							c := C07Case{SP: h.BaseSP(), Window: w, ClockPos: pos, SPCert: spc, StoreKind: store, Plain: "signed", Place: "direct", RespSig: "none", Recip: recip,
								Enc: h.EncSpec{DataAlg: alg, Transport: h.Transports[i%3], Digest: "-", To: h.CertRef{Key: "E1", Window: w}, Key: make([]byte, h.KeyLen(alg)), IV: make([]byte, iv)}}
							c.SP.ValidateEncCert = validate
							c.StaleLeaf = store == "tls" && i%2 == 0
							c.IdPWide = w == "narrow"
							if err := c.build(); err != nil {
								t.Fatalf("harness: %v", err)
							}
							cases = append(cases, c)
						}
					}
				}
			}
		}
	}
	// every placement x recipient naming x key placement, in the valid window
	for _, place := range []string{"direct", "nested", "in-forged", "direct+nested-after", "nested-before+direct", "direct+direct-after", "direct-before+direct", "in-encrypted-sibling", "in-encrypted-keyinfo", "in-encrypted-first"} {
		for _, recip := range []string{"absent", "sp", "other", "undecodable", "sp-otherwindow"} {
			for _, detached := range []bool{false, true} {
				for _, plain := range []string{"signed", "unsigned", "forged"} {
					i++
					alg := h.DataAlgs[i%len(h.DataAlgs)]
					iv := 16
					if h.IsGCM(alg) {
						iv = 12
					}
					c := C07Case{SP: h.BaseSP(), Window: "wide", ClockPos: "inside", SPCert: "valid", StoreKind: []string{"tls", "custom"}[i%2], Plain: plain, Place: place, RespSig: "none", Recip: recip,
						Enc: h.EncSpec{DataAlg: alg, Transport: h.Transports[i%3], Digest: "-", Detached: detached, To: h.CertRef{Key: "E1", Window: "wide"}, Key: make([]byte, h.KeyLen(alg)), IV: make([]byte, iv)}}
					if err := c.build(); err != nil {
						t.Fatalf("harness: %v", err)
					}
					cases = append(cases, c)
				}
			}
		}
	}
	h.RunCases(t, "C07", cases, checkC07)
}

// C07Seq: one long-lived service provider (same key store object) whose clock moves between validations:
// every step must be decided by the clock at that step (a certificate that was valid earlier does not stay valid).
type C07Seq struct {
	Base  C07Case  `json:"base"`
	Steps []string `json:"steps"` // clock positions, in order
	Enc   []string `json:"enc"`   // encoded message per step
}

func genC07Seq(t *rapid.T) C07Seq {
	base := genC07(t)
	base.SP.ValidateEncCert = rapid.IntRange(0, 3).Draw(t, "validateOn") != 0
	base.SPCert = rapid.SampledFrom([]string{"valid", "valid", "valid", "garbage"}).Draw(t, "spCert2")
	base.Window = rapid.SampledFrom([]string{"narrow", "narrow", "past", "future"}).Draw(t, "window2")
	base.IdPWide = base.Window == "narrow"
	base.Enc.To = h.CertRef{Key: "E1", Window: base.Window}
	q := C07Seq{Base: base}
	n := rapid.IntRange(2, 4).Draw(t, "steps")
	for i := 0; i < n; i++ {
		q.Steps = append(q.Steps, rapid.SampledFrom(append([]string{"inside", "inside"}, clockPositions...)).Draw(t, "pos"))
	}
	for _, pos := range q.Steps {
		c := base
		c.ClockPos = pos
		if err := c.build(); err != nil {
			t.Fatalf("harness: %v", err)
		}
		q.Enc = append(q.Enc, c.Encoded)
	}
	return q
}

func checkC07Seq(q C07Seq) h.Outcome {
	o := h.Outcome{NonTrivial: true, Classes: []string{"seq", "window:" + q.Base.Window, fmt.Sprintf("validate:%v", q.Base.SP.ValidateEncCert), "store:" + q.Base.StoreKind}}
	first := q.Base
	first.ClockPos = q.Steps[0]
	first.SP.NowUnixNano = clockAt(first.Window, first.ClockPos).UnixNano()
	sp := first.buildSP()
	for i, pos := range q.Steps {
		c := q.Base
		c.ClockPos, c.Encoded = pos, q.Enc[i]
		c.SP.NowUnixNano = clockAt(c.Window, pos).UnixNano()
		idp := h.CertRef{Key: "T1", Window: c.Window}
		if c.IdPWide {
			idp.Window = "wide"
		}
		c.SP.Store = []h.CertRef{idp, {Key: "U1", Window: "wide"}}
		sp.Clock = dsig.NewFakeClockAt(c.SP.Now())
		sp.IDPCertificateStore = h.Store(c.SP.Store)
		so := judgeC07(c, func() *saml2.SAMLServiceProvider { return sp })
		o.Classes = append(o.Classes, "step:"+pos)
		if so.Violation != nil {
			so.Violation.Sig = "reused-sp/" + so.Violation.Sig
			so.Violation.Detail = fmt.Sprintf("step %d (clock %s) on a long-lived service provider after steps %v: %s", i+1, pos, q.Steps[:i], so.Violation.Detail)
			o.Violation = so.Violation
			return o
		}
	}
	o.Classes = dedup(o.Classes)
	return o
}

func TestC07_PSeq(t *testing.T)      { h.RunProp(t, "C07.seq", genC07Seq, checkC07Seq) }
func TestC07_ReplaySeq(t *testing.T) { h.RunReplay(t, "C07.seq", checkC07Seq) }
