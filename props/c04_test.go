package props

import (
	"testing"

	"pgregory.net/rapid"

	h "verif/harness"
)

// C04 — trust indicators never overstate what was cryptographically verified.
// Same attacker engine as C01, crossed with SkipSignatureValidation on/off; the oracle is the
// flag algebra in judgeSSO / judgeLogout (flag => own trusted signature and fields equal the signed
// model; skip => all flags false; validation on and Response flag false => every assertion flagged;
// summary flag mirrors the Response flag).

func genC04(t *rapid.T) AttackCase {
	return genAttackCase(t, attackOpts{skipAllowed: true, maxOps: 3,
		opKinds: []string{"edit-text", "edit-attr", "add-attr", "add-attr", "strip-sig", "move-sig", "swap-sig", "dup-el", "wrap-root", "forge-assertion", "resign", "splice", "id-game", "ref-game", "comment-trick", "rename-el", "encrypt"}})
}

func checkC04(c AttackCase) h.Outcome {
	o := h.Outcome{}
	c.classes(&o)
	// every case can show a flag: non-trivial when something is accepted or a structural operator ran
	if v := c.judgeSSO(&o); v != nil {
		o.Violation = v
		return o
	}
	if v := c.judgeLogout(&o); v != nil {
		o.Violation = v
	}
	for _, cl := range o.Classes {
		if cl == "sso:accepted" || cl == "logoutreq:accepted" || cl == "logoutresp:accepted" {
			o.NonTrivial = true
		}
	}
	o.Classes = dedup(o.Classes)
	return o
}

// C04.nostore: a service provider WITHOUT an IdP certificate store and with signature checking ON can verify
// nothing: no SSO Response may be accepted (every acceptance needs a verified signature), a logout message only
// with its indicator false. The signature library dereferences the store when it meets a signature; a panic there
// is a refusal as far as this property goes (C09 quantifies over configurations that supply a store).
func genC04NoStore(t *rapid.T) AttackCase {
	c := genAttackCase(t, attackOpts{maxOps: 2,
		opKinds: []string{"edit-text", "strip-sig", "strip-sig", "strip-sig", "move-sig", "dup-el", "forge-assertion", "comment-trick", "encrypt"}})
	c.SP.NoStore, c.SP.Store = true, nil
	return c
}

func checkC04NoStore(c AttackCase) h.Outcome {
	o := h.Outcome{NonTrivial: true}
	c.classes(&o)
	o.NonTrivial = true
	if c.SP.Skip || !c.SP.NoStore {
		o.Violation = h.V("harness/nostore-config", "C04.nostore needs validation on and no store")
		return o
	}
	call := func(name string, f func() (accepted bool, flags []bool)) *h.Violation {
		var acc bool
		var flags []bool
		if pv := h.Guard(func() { acc, flags = f() }); pv != nil {
			o.Classes = append(o.Classes, name+":panic")
			return nil
		}
		if !acc {
			o.Classes = append(o.Classes, name+":rejected")
			return nil
		}
		o.Classes = append(o.Classes, name+":accepted")
		if flags == nil {
			return h.V("accepted-without-store/"+name, "%s accepted a message although signature checking is on and there is no certificate to check against (notes %v)", name, c.Notes)
		}
		for _, f := range flags {
			if f {
				return h.V("flag-without-store/"+name, "%s reports a verified signature although there is no certificate store (notes %v)", name, c.Notes)
			}
		}
		return nil
	}
	vs := []*h.Violation{
		call("ValidateEncodedResponse", func() (bool, []bool) {
			_, err := c.SP.Build().ValidateEncodedResponse(c.Encoded)
			return err == nil, nil
		}),
		call("RetrieveAssertionInfo", func() (bool, []bool) { _, err := c.SP.Build().RetrieveAssertionInfo(c.Encoded); return err == nil, nil }),
		call("ValidateEncodedLogoutRequestPOST", func() (bool, []bool) {
			r, err := c.SP.Build().ValidateEncodedLogoutRequestPOST(c.Encoded)
			if err != nil {
				return false, nil
			}
			return true, []bool{r.SignatureValidated}
		}),
		call("ValidateEncodedLogoutResponsePOST", func() (bool, []bool) {
			r, err := c.SP.Build().ValidateEncodedLogoutResponsePOST(c.Encoded)
			if err != nil {
				return false, nil
			}
			return true, []bool{r.SignatureValidated}
		}),
	}
	for _, v := range vs {
		if v != nil {
			o.Violation = v
			break
		}
	}
	o.Classes = dedup(o.Classes)
	return o
}

func TestC04_PNoStore(t *testing.T)      { h.RunProp(t, "C04.nostore", genC04NoStore, checkC04NoStore) }
func TestC04_ReplayNoStore(t *testing.T) { h.RunReplay(t, "C04.nostore", checkC04NoStore) }

func TestC04(t *testing.T)        { h.RunProp(t, "C04", genC04, checkC04) }
func TestC04_Replay(t *testing.T) { h.RunReplay(t, "C04", checkC04) }

// TestC04_Grid: every combination of Response-level and assertion-level signature by trusted (T),
// attacker (A) or nobody (-), under signature checking and skip, untouched: the flags must be exactly
// what the model says and untrusted signatures must be fatal when checking is on.
func TestC04_Grid(t *testing.T) {
	var cases []AttackCase
	for _, skip := range []bool{false, true} {
		for _, rs := range []string{"T", "A", "-"} {
			for _, as := range []string{"T", "A", "-"} {
				for _, n := range []int{1, 2} {
					sp := h.BaseSP()
					sp.Skip = skip
					placement := map[bool]map[bool]string{true: {true: "both", false: "response"}, false: {true: "assertions", false: "none"}}[rs != "-"][as != "-"]
					g := gridGenuine(sp, n, "none")
					g.Placement = placement
					key := map[string]string{"T": "T1", "A": "A"}
					if rs != "-" {
						g.RespSig = h.DefaultSign(key[rs])
					}
					if as != "-" {
						for i := 0; i < n; i++ {
							g.AsrtSig = append(g.AsrtSig, h.DefaultSign(key[as]))
						}
					}
					c := AttackCase{SP: sp, Pool: []*h.Genuine{g}}
					if err := c.build(); err != nil {
						t.Fatalf("harness: %v", err)
					}
					cases = append(cases, c)
				}
			}
		}
	}
	h.RunCases(t, "C04", cases, checkC04Grid)
}

// checkC04Grid adds the exact expected outcome for the untouched grid documents.
func checkC04Grid(c AttackCase) h.Outcome {
	o := checkC04(c)
	if o.Violation != nil {
		return o
	}
	g := c.Pool[0]
	respT, respBad := c.specTrusted(g.RespSig), g.RespSig != nil && !c.specTrusted(g.RespSig)
	asrtT, asrtBad := len(g.AsrtSig) > 0 && c.specTrusted(g.AsrtSig[0]), len(g.AsrtSig) > 0 && !c.specTrusted(g.AsrtSig[0])
	resp, err := c.SP.Build().ValidateEncodedResponse(c.Encoded)
	switch {
	case c.SP.Skip:
		if err != nil {
			o.Violation = h.V("grid/skip-rejected", "skip configuration rejected a well-formed response: %v", err)
		}
	case respBad, !respT && asrtBad, !respT && !asrtT:
		if err == nil {
			o.Violation = h.V("grid/untrusted-accepted", "accepted although resp trusted=%v bad=%v, assertions trusted=%v bad=%v", respT, respBad, asrtT, asrtBad)
		}
	default:
		if err != nil {
			o.Violation = h.V("grid/trusted-rejected", "rejected although a trusted signature covers everything: %v", err)
			return o
		}
		if resp.SignatureValidated != respT {
			o.Violation = h.V("grid/response-flag", "Response flag %v want %v", resp.SignatureValidated, respT)
		}
		for _, a := range resp.Assertions {
			// "only if": a flag without an own trusted signature overstates; with validation on and the
			// Response flag false every returned assertion must be flagged. (A true flag on an assertion that
			// does carry its own trusted signature inside a validated Response would be fine too.)
			if a.SignatureValidated && !asrtT {
				o.Violation = h.V("grid/assertion-flag", "assertion flagged validated without an own trusted signature (respT=%v)", respT)
			}
			if !a.SignatureValidated && !respT {
				o.Violation = h.V("grid/assertion-flag", "Response flag false and assertion not flagged (asrtT=%v)", asrtT)
			}
		}
	}
	o.NonTrivial = true
	return o
}
