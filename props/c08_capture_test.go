package props

import (
	"crypto/tls"
	"crypto/x509"
	"encoding/base64"
	"encoding/json"
	"encoding/pem"
	"fmt"
	"os"
	"path/filepath"
	"reflect"
	"strings"
	"testing"
	"time"

	"github.com/beevik/etree"
	saml2 "github.com/russellhaering/gosaml2"
	"github.com/russellhaering/gosaml2/types"
	dsig "github.com/russellhaering/goxmldsig"
	"pgregory.net/rapid"

	h "verif/harness"
)

// C08, second base set: responses captured from real third-party IdPs (copied from the repository's
// provider fixtures into corpus/C08 together with their certificate, SP configuration and clock).
// The harness has no key for them; it re-serialises the captured tree with canonicalisation-invariant
// layout changes only, so every variant must still be accepted and must return data deep-equal to what
// the untouched capture returns. This removes the "same library signs and verifies" blind spot.

type capture struct {
	Name         string `json:"name"`
	Response     string `json:"response"`
	B64          bool   `json:"b64"`
	IdPIssuer    string `json:"idpIssuer"`
	ACS          string `json:"acs"`
	Audience     string `json:"audience"`
	Cert         string `json:"cert"`
	SPCert       string `json:"spCert"`
	SPKey        string `json:"spKey"`
	AllowMissing bool   `json:"allowMissingAttributes"`
	Clock        string `json:"clock"`

	xml   []byte
	roots []*x509.Certificate
	ks    dsig.X509KeyStore
	now   time.Time
}

var captures []*capture

func loadCaptures() []*capture {
	if captures != nil {
		return captures
	}
	dir := filepath.Join(h.VerifDir(), "corpus", "C08")
	b, err := os.ReadFile(filepath.Join(dir, "captures.json"))
	if err != nil {
		panic(err)
	}
	var cs []*capture
	if err := json.Unmarshal(b, &cs); err != nil {
		panic(err)
	}
	for _, c := range cs {
		raw, err := os.ReadFile(filepath.Join(dir, c.Response))
		if err != nil {
			panic(err)
		}
		if c.B64 {
			raw, err = base64.StdEncoding.DecodeString(strings.TrimSpace(string(raw)))
			if err != nil {
				panic(err)
			}
		}
		c.xml = raw
		pemBytes, _ := os.ReadFile(filepath.Join(dir, c.Cert))
		blk, _ := pem.Decode(pemBytes)
		cert, err := x509.ParseCertificate(blk.Bytes)
		if err != nil {
			panic(err)
		}
		c.roots = []*x509.Certificate{cert}
		if c.SPCert != "" {
			cb, _ := os.ReadFile(filepath.Join(dir, c.SPCert))
			kb, _ := os.ReadFile(filepath.Join(dir, c.SPKey))
			kp, err := tls.X509KeyPair(cb, kb)
			if err != nil {
				panic(err)
			}
			c.ks = dsig.TLSCertKeyStore(kp)
		}
		c.now, _ = time.Parse(time.RFC3339, c.Clock)
	}
	captures = cs
	return cs
}

func (c *capture) sp() *saml2.SAMLServiceProvider {
	sp := &saml2.SAMLServiceProvider{IdentityProviderIssuer: c.IdPIssuer, AssertionConsumerServiceURL: c.ACS, AudienceURI: c.Audience,
		IDPCertificateStore: &dsig.MemoryX509CertificateStore{Roots: c.roots}, AllowMissingAttributes: c.AllowMissing, Clock: dsig.NewFakeClockAt(c.now)}
	if c.ks != nil {
		sp.SPKeyStore = c.ks
	}
	return sp
}

type C08Capture struct {
	Capture int            `json:"capture"`
	Name    string         `json:"name"`
	Layout  h.Layout       `json:"layout"`
	Pres    h.Presentation `json:"pres"`
	Encoded string         `json:"encoded"`
	Feat    []string       `json:"features"`
}

func genC08Capture(t *rapid.T) C08Capture {
	cs := loadCaptures()
	c := C08Capture{Capture: rapid.IntRange(0, len(cs)-1).Draw(t, "capture")}
	cp := cs[c.Capture]
	c.Name = cp.Name
	doc := etree.NewDocument()
	if err := doc.ReadFromBytes(cp.xml); err != nil {
		t.Fatalf("harness: capture %s does not parse: %v", cp.Name, err)
	}
	// comments are invisible to the signatures only if no #WithComments canonicaliser is in play
	allowComments := !strings.Contains(string(cp.xml), "#WithComments")
	c.Layout = h.GenLayout(allowComments).Draw(t, "layout")
	c.Pres = h.GenPresentation().Draw(t, "pres")
	xml, st := h.SerializeStats(doc.Root(), c.Layout)
	c.Encoded = h.Encode(xml, c.Pres)
	for k, v := range map[string]int{"comments": st.Comments, "cdata": st.CDATAs, "charref": st.CharRefs, "attrorder": st.Shuffled, "squote": st.SingleQuoted, "tagspace": st.TagSpaces} {
		if v > 0 {
			c.Feat = append(c.Feat, k)
		}
	}
	return c
}

func stripForCompare(r *types.Response) types.Response {
	c := *r
	as := make([]types.Assertion, len(r.Assertions))
	copy(as, r.Assertions)
	for i := range as {
		as[i].Signature = nil // innerxml copy of the Signature element: raw text that legitimately depends on layout
	}
	c.Assertions = as
	c.EncryptedAssertions = nil
	return c
}

func checkC08Capture(c C08Capture) h.Outcome {
	o := h.Outcome{NonTrivial: len(c.Feat) > 0, Classes: []string{"capture:" + c.Name}}
	for _, f := range c.Feat {
		o.Classes = append(o.Classes, "layout:"+f)
	}
	if c.Pres.Deflate {
		o.Classes = append(o.Classes, "deflate")
	}
	cp := loadCaptures()[c.Capture]
	base, err := cp.sp().ValidateEncodedResponse(base64.StdEncoding.EncodeToString(cp.xml))
	if err != nil {
		o.Violation = h.V("capture-baseline-rejected/"+cp.Name, "the untouched capture is rejected: %v", err)
		return o
	}
	got, err := cp.sp().ValidateEncodedResponse(c.Encoded)
	if err != nil {
		o.Violation = h.V("capture-relayout-rejected/"+cp.Name, "a canonicalisation-invariant re-serialisation of the %s capture is rejected: %v (features %v)", cp.Name, err, c.Feat)
		return o
	}
	if a, b := stripForCompare(base), stripForCompare(got); !reflect.DeepEqual(a, b) {
		d := "response fields"
		if len(a.Assertions) == len(b.Assertions) {
			for i := range a.Assertions {
				if dd := h.Diff(h.ViewOfAssertion(&a.Assertions[i]), h.ViewOfAssertion(&b.Assertions[i])); dd != "" {
					d = fmt.Sprintf("assertion[%d] %s", i, dd)
				}
			}
		}
		o.Violation = h.V("capture-relayout-data-differs/"+cp.Name, "re-serialised capture returns different data: %s (features %v)", d, c.Feat)
		return o
	}
	bi, err1 := cp.sp().RetrieveAssertionInfo(base64.StdEncoding.EncodeToString(cp.xml))
	gi, err2 := cp.sp().RetrieveAssertionInfo(c.Encoded)
	if (err1 == nil) != (err2 == nil) {
		o.Violation = h.V("capture-relayout-info-differs/"+cp.Name, "RetrieveAssertionInfo: untouched err=%v, re-serialised err=%v", err1, err2)
		return o
	}
	if err1 == nil && (bi.NameID != gi.NameID || bi.SessionIndex != gi.SessionIndex || !reflect.DeepEqual(bi.Values, gi.Values) || !reflect.DeepEqual(bi.WarningInfo, gi.WarningInfo)) {
		o.Violation = h.V("capture-relayout-info-differs/"+cp.Name, "AssertionInfo differs between the untouched and the re-serialised capture")
	}
	return o
}

func TestC08_PCapture(t *testing.T) { h.RunProp(t, "C08.capture", genC08Capture, checkC08Capture) }
