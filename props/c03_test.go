package props

import (
	"fmt"
	"strings"
	"testing"
	"time"

	saml2 "github.com/russellhaering/gosaml2"
	"github.com/russellhaering/gosaml2/types"
	"pgregory.net/rapid"

	h "verif/harness"
)

// C03 — acceptance implies every SSO profile check passed, for every assertion;
// a single violated check is rejected through the typed error naming it.

type Fault struct {
	Target  int    `json:"target"` // -1 = Response, i = assertion index
	Kind    string `json:"kind"`
	Variant string `json:"variant"`
}

func (f Fault) String() string { return fmt.Sprintf("%d:%s:%s", f.Target, f.Kind, f.Variant) }

// ErrSpec is the typed error a fault must produce.
type ErrSpec struct {
	Type, Tag, Attr, Key, Reason string
}

func nearMiss(s string, variant string) string {
	switch variant {
	case "slash":
		if strings.HasSuffix(s, "/") {
			return strings.TrimSuffix(s, "/")
		}
		return s + "/"
	case "case":
		u := strings.ToUpper(s)
		if u == s {
			u = strings.ToLower(s)
		}
		if u == s {
			return s + "x"
		}
		return u
	case "space":
		return s + " "
	case "lspace":
		return " " + s
	case "empty":
		return ""
	case "userinfo": // https://x@host/... : another URL that only a URL parser considers "the same host"
		if i := strings.Index(s, "://"); i > 0 {
			return s[:i+3] + "idp.example.com@" + s[i+3:]
		}
		return "u@" + s
	case "fragment":
		return s + "#https://other.example.com/"
	case "trailing-q":
		return s + "?"
	case "pct-letter": // one path letter percent-encoded
		if i := strings.LastIndex(s, "/"); i >= 0 && i+1 < len(s) {
			return s[:i+1] + fmt.Sprintf("%%%02X", s[i+1]) + s[i+2:]
		}
		return s + "%41"
	case "pct-slash":
		if i := strings.LastIndex(s, "/"); i > 8 {
			return s[:i] + "%2F" + s[i+1:]
		}
		return s + "%2F"
	case "host-case":
		if i := strings.Index(s, "://"); i > 0 {
			return s[:i+3] + strings.ToUpper(s[i+3:i+5]) + s[i+5:]
		}
		return strings.ToUpper(s)
	case "default-port":
		if i := strings.Index(s, "://"); i > 0 {
			if j := strings.Index(s[i+3:], "/"); j > 0 {
				return s[:i+3+j] + ":443" + s[i+3+j:]
			}
		}
		return s + ":443"
	case "glob": // differs, but matches when the right value is read as a pattern
		return globMiss(s)
	case "nfd": // a combining sequence after the last character
		return s + "\u0301"
	}
	return s + ".evil.example"
}

// urlVariants: values a URL-normalising comparison would wrongly equate with the right one.
var urlVariants = []string{"glob", "userinfo", "fragment", "trailing-q", "pct-letter", "pct-slash", "host-case", "default-port", "nfd"}

// cfgVariants name OTHER configured strings of the service provider: a value that the SP knows, but that is
// not the one the checked field must equal (a check that compares against "any of my endpoints" accepts them).
var cfgVariants = []string{"cfg-acs", "cfg-slo", "cfg-spissuer", "cfg-idpissuer", "cfg-audience", "cfg-idpsso", "cfg-idpslo"}

// wrongValue is nearMiss extended by the cfg-* variants.
func wrongValue(sp h.SPConfig, right, variant string) string {
	v, cfg := "", true
	switch variant {
	case "cfg-acs":
		v = sp.ACS
	case "cfg-slo":
		v = sp.SLO
	case "cfg-spissuer":
		v = sp.SPIssuer
	case "cfg-idpissuer":
		v = sp.IdPIssuer
	case "cfg-audience":
		v = sp.Audience
	case "cfg-idpsso":
		v = sp.IdPSSO
	case "cfg-idpslo":
		v = sp.IdPSLO
	default:
		cfg = false
	}
	if !cfg {
		v = nearMiss(right, variant)
		if strings.Contains(v, "]]>") && !strings.Contains(right, "]]>") {
			// a near miss that DELETES characters (pattern variants) can assemble "]]>" out of a value that
			// did not contain it: not applicable, for the same reason as below
			return right
		}
		return v
	}
	if strings.Contains(v, "]]>") {
		// text-context strings may hold "]]>", which cannot be carried in a signed attribute (C08's open
		// finding, not what C03 is about): variant not applicable
		return right
	}
	return v
}

var respFaults = map[string][]string{
	"version":     {"absent", "1.1", "2.00", " 2.0", "2", "", "02.0", "+2.0", "2e0", "2.0 ", "2.0.0", "0x1p1"},
	"destination": append(append([]string{"wrong", "slash", "case", "space", "lspace"}, cfgVariants...), urlVariants...),
	"issuer":      append(append([]string{"absent", "wrong", "slash", "case", "space", "empty"}, cfgVariants...), urlVariants...),
	"status":      {"absent"},
	"statuscode":  {"absent", "Requester", "success-case", "empty", "valueabsent", "nested-success", "nested-success-deep", "success-space"},
	"noassertion": {"-"},
}

var asrtFaults = map[string][]string{
	"issuer":    append(append([]string{"absent", "wrong", "slash", "case", "space", "empty"}, cfgVariants...), urlVariants...),
	"subject":   {"absent"},
	"sc":        {"absent"},
	"method":    {"holder", "absent", "bearer-case", "empty"},
	"scd":       {"absent"},
	"recipient": append(append([]string{"absent", "wrong", "slash", "case", "space", "empty"}, cfgVariants...), urlVariants...),
	"nooa":      {"absent", "empty", "garbage", "dateonly", "nozone", "lspace", "past1ns", "past1s", "past1h", "equal-z", "equal-plus00", "equal-plus01", "equal-minus05", "equal-frac"},
}

func sortedKeys(m map[string][]string) []string {
	var ks []string
	for k := range m {
		ks = append(ks, k)
	}
	// deterministic order
	for i := range ks {
		for j := i + 1; j < len(ks); j++ {
			if ks[j] < ks[i] {
				ks[i], ks[j] = ks[j], ks[i]
			}
		}
	}
	return ks
}

// applyFault mutates the model and returns the typed error it must cause, or ok=false
// if the fault is not applicable to this configuration (e.g. wrong issuer with no issuer configured).
func applyFault(m *h.ResponseModel, sp h.SPConfig, f Fault) (ErrSpec, bool) {
	if f.Target < 0 {
		switch f.Kind {
		case "version":
			switch f.Variant {
			case "absent":
				m.Version = h.None
			default:
				m.Version = h.S(f.Variant)
			}
			return ErrSpec{Type: "ErrInvalidValue", Key: "SAML version", Reason: saml2.ReasonUnsupported}, true
		case "destination":
			v := wrongValue(sp, sp.ACS, f.Variant)
			if v == sp.ACS || v == "" {
				return ErrSpec{}, false
			}
			m.Destination = h.S(v)
			return ErrSpec{Type: "ErrInvalidValue", Key: "Destination"}, true
		case "issuer":
			if f.Variant == "absent" {
				m.Issuer = h.None
				return ErrSpec{Type: "ErrMissingElement", Tag: "Issuer"}, true
			}
			if sp.IdPIssuer == "" {
				return ErrSpec{}, false
			}
			v := wrongValue(sp, sp.IdPIssuer, f.Variant)
			if v == sp.IdPIssuer {
				return ErrSpec{}, false
			}
			m.Issuer = h.S(v)
			return ErrSpec{Type: "ErrInvalidValue", Key: "Issuer"}, true
		case "status":
			m.HasStatus = false
			return ErrSpec{Type: "ErrMissingElement", Tag: "Status"}, true
		case "statuscode":
			switch f.Variant {
			case "absent":
				m.HasCode = false
				return ErrSpec{Type: "ErrMissingElement", Tag: "StatusCode"}, true
			case "Requester":
				m.StatusCode = h.S("urn:oasis:names:tc:SAML:2.0:status:Requester")
			case "success-case":
				m.StatusCode = h.S("urn:oasis:names:tc:SAML:2.0:status:success")
			case "empty":
				m.StatusCode = h.S("")
			case "valueabsent":
				m.StatusCode = h.None
			case "nested-success": // the TOP-LEVEL code decides; a subordinate Success does not make a failure a success
				m.StatusCode = h.S("urn:oasis:names:tc:SAML:2.0:status:Responder")
				m.SubCodes = []string{h.StatusSuccess}
			case "nested-success-deep":
				m.StatusCode = h.S("urn:oasis:names:tc:SAML:2.0:status:Requester")
				m.SubCodes = []string{"urn:oasis:names:tc:SAML:2.0:status:RequestDenied", h.StatusSuccess}
			case "success-space":
				m.StatusCode = h.S(h.StatusSuccess + " ")
			}
			return ErrSpec{Type: "ErrInvalidValue", Key: "StatusCode"}, true
		case "noassertion":
			m.Assertions = nil
			return ErrSpec{Type: "ErrMissingElement", Tag: "Assertion"}, true
		}
		return ErrSpec{}, false
	}
	if f.Target >= len(m.Assertions) {
		return ErrSpec{}, false
	}
	a := &m.Assertions[f.Target]
	switch f.Kind {
	case "issuer":
		if f.Variant == "absent" {
			a.Issuer = h.None
			return ErrSpec{Type: "ErrMissingElement", Tag: "Issuer"}, true
		}
		if sp.IdPIssuer == "" {
			return ErrSpec{}, false
		}
		v := wrongValue(sp, sp.IdPIssuer, f.Variant)
		if v == sp.IdPIssuer {
			return ErrSpec{}, false
		}
		a.Issuer = h.S(v)
		return ErrSpec{Type: "ErrInvalidValue", Key: "Issuer"}, true
	case "subject":
		a.HasSubject = false
		return ErrSpec{Type: "ErrMissingElement", Tag: "Subject"}, true
	case "sc":
		a.HasSC = false
		return ErrSpec{Type: "ErrMissingElement", Tag: "SubjectConfirmation"}, true
	case "method":
		switch f.Variant {
		case "holder":
			a.SCMethod = h.S("urn:oasis:names:tc:SAML:2.0:cm:holder-of-key")
		case "absent":
			a.SCMethod = h.None
		case "bearer-case":
			a.SCMethod = h.S("urn:oasis:names:tc:SAML:2.0:cm:Bearer")
		case "empty":
			a.SCMethod = h.S("")
		}
		return ErrSpec{Type: "ErrInvalidValue", Key: "SubjectConfirmation", Reason: saml2.ReasonUnsupported}, true
	case "scd":
		a.HasSCD = false
		return ErrSpec{Type: "ErrMissingElement", Tag: "SubjectConfirmationData"}, true
	case "recipient":
		if f.Variant == "absent" {
			a.Recipient = h.None
		} else {
			v := wrongValue(sp, sp.ACS, f.Variant)
			if v == sp.ACS {
				return ErrSpec{}, false
			}
			a.Recipient = h.S(v)
		}
		return ErrSpec{Type: "ErrInvalidValue", Key: "Recipient"}, true
	case "nooa":
		now := sp.Now()
		switch f.Variant {
		case "absent":
			a.SCNotOnOrAfter = h.None
			return ErrSpec{Type: "ErrMissingElement", Tag: "SubjectConfirmationData", Attr: "NotOnOrAfter"}, true
		case "empty":
			a.SCNotOnOrAfter = h.S("")
			return ErrSpec{Type: "ErrMissingElement", Tag: "SubjectConfirmationData", Attr: "NotOnOrAfter"}, true
		case "garbage":
			a.SCNotOnOrAfter = h.S("tomorrow")
		case "dateonly":
			a.SCNotOnOrAfter = h.S(now.Add(48 * time.Hour).UTC().Format("2006-01-02"))
		case "nozone":
			a.SCNotOnOrAfter = h.S(now.Add(48 * time.Hour).UTC().Format("2006-01-02T15:04:05"))
		case "lspace":
			a.SCNotOnOrAfter = h.S(" " + now.Add(48*time.Hour).UTC().Format(time.RFC3339))
		case "past-far":
			// decades before any clock this harness can meet (used with a service provider that has NO Clock set and
			// therefore follows the system time)
			a.SCNotOnOrAfter = h.S("2001-09-09T01:46:40Z")
			return ErrSpec{Type: "ErrInvalidValue", Key: "NotOnOrAfter", Reason: saml2.ReasonExpired}, true
		case "past1ns":
			a.SCNotOnOrAfter = h.S(h.RenderTime(now.Add(-1), 0, true, 9))
			return ErrSpec{Type: "ErrInvalidValue", Key: "NotOnOrAfter", Reason: saml2.ReasonExpired}, true
		case "past1s":
			a.SCNotOnOrAfter = h.S(h.RenderTime(now.Add(-time.Second), 0, true, 9))
			return ErrSpec{Type: "ErrInvalidValue", Key: "NotOnOrAfter", Reason: saml2.ReasonExpired}, true
		case "past1h":
			a.SCNotOnOrAfter = h.S(h.RenderTime(now.Add(-time.Hour), 60, false, 9))
			return ErrSpec{Type: "ErrInvalidValue", Key: "NotOnOrAfter", Reason: saml2.ReasonExpired}, true
		case "equal-z", "equal-plus00", "equal-plus01", "equal-minus05", "equal-frac":
			// the bound IS the clock instant (reached: NotOnOrAfter is exclusive), in several spellings of that instant
			switch f.Variant {
			case "equal-z":
				a.SCNotOnOrAfter = h.S(h.RenderTime(now, 0, true, 9))
			case "equal-plus00":
				a.SCNotOnOrAfter = h.S(h.RenderTime(now, 0, false, 9))
			case "equal-plus01":
				a.SCNotOnOrAfter = h.S(h.RenderTime(now, 60, false, 9))
			case "equal-minus05":
				a.SCNotOnOrAfter = h.S(h.RenderTime(now, -300, false, 9))
			default:
				a.SCNotOnOrAfter = h.S(h.RenderTime(now, 330, false, h.MinFrac(now)))
			}
			return ErrSpec{Type: "ErrInvalidValue", Key: "NotOnOrAfter", Reason: saml2.ReasonExpired}, true
		}
		return ErrSpec{Type: "ErrParsing", Tag: "NotOnOrAfter"}, true
	}
	return ErrSpec{}, false
}

// specOf classifies a returned error (unwrapping ErrVerification).
func specOf(err error) ErrSpec {
	if v, ok := err.(saml2.ErrVerification); ok {
		err = v.Cause
	}
	switch e := err.(type) {
	case saml2.ErrMissingElement:
		return ErrSpec{Type: "ErrMissingElement", Tag: e.Tag, Attr: e.Attribute}
	case saml2.ErrInvalidValue:
		return ErrSpec{Type: "ErrInvalidValue", Key: e.Key, Reason: e.Reason}
	case saml2.ErrParsing:
		return ErrSpec{Type: "ErrParsing", Tag: e.Tag}
	}
	return ErrSpec{Type: "other:" + fmt.Sprintf("%T", err)}
}

// specMatch decides whether the returned typed error names the violated element / attribute. It compares
// the Go type and the element or attribute NAME (case-insensitively, so "SAML version" names Version);
// free-text fields (Reason) are compared only where they distinguish two different checks (Expired).
func specMatch(want, got ErrSpec) bool {
	if want.Type != got.Type {
		return false
	}
	norm := func(s string) string { return strings.ToLower(strings.ReplaceAll(s, " ", "")) }
	switch want.Type {
	case "ErrMissingElement":
		return norm(want.Tag) == norm(got.Tag) && norm(want.Attr) == norm(got.Attr)
	case "ErrParsing":
		return norm(want.Tag) == norm(got.Tag)
	case "ErrInvalidValue":
		key := norm(want.Key)
		if key == "samlversion" {
			key = "version"
		}
		if !strings.Contains(norm(got.Key), key) {
			return false
		}
		if want.Reason == saml2.ReasonExpired || got.Reason == saml2.ReasonExpired {
			return want.Reason == got.Reason
		}
		return true
	}
	return false
}

// profileValid is the executable restatement of the property's predicate list, on the model.
func profileValid(m *h.ResponseModel, sp h.SPConfig) bool {
	if m.Version.Str() != "2.0" {
		return false
	}
	if d := m.Destination.Str(); d != "" && d != sp.ACS {
		return false
	}
	if !m.Issuer.Set || (sp.IdPIssuer != "" && m.Issuer.V != sp.IdPIssuer) {
		return false
	}
	if !m.HasStatus || !m.HasCode || m.StatusCode.Str() != h.StatusSuccess {
		return false
	}
	if len(m.Assertions) == 0 {
		return false
	}
	now := sp.Now()
	for _, a := range m.Assertions {
		if !a.Issuer.Set || (sp.IdPIssuer != "" && a.Issuer.V != sp.IdPIssuer) {
			return false
		}
		if !a.HasSubject || !a.HasSC || a.SCMethod.Str() != h.Bearer || !a.HasSCD {
			return false
		}
		if a.Recipient.Str() != sp.ACS {
			return false
		}
		if a.SCNotOnOrAfter.Str() == "" {
			return false
		}
		t, err := time.Parse(time.RFC3339, a.SCNotOnOrAfter.V)
		if err != nil || !now.Before(t) {
			return false
		}
	}
	return true
}

type C03Case struct {
	SP      h.SPConfig `json:"sp"`
	Issue   *h.Genuine `json:"issue"`
	Faults  []Fault    `json:"faults"`
	Expect  []ErrSpec  `json:"expect"` // typed errors of the applied faults
	Encoded string     `json:"encoded"`
	// EncAll: EVERY assertion travels encrypted. Under SkipSignatureValidation nothing is decrypted, so the
	// Response carries no assertion the caller could be given: it has to be refused as one without assertions.
	EncAll bool `json:"encAll,omitempty"`
}

// encAllSkip: the case's Response has, for the library, no assertion at all.
func (c *C03Case) encAllSkip() bool { return c.EncAll && c.SP.Skip }

var missingAssertion = ErrSpec{Type: "ErrMissingElement", Tag: "Assertion"}

// encryptAll marks every assertion of the issuance for encryption to E1 (random-free specs: fixed key and IV).
func encryptAll(g *h.Genuine, sp *h.SPConfig) {
	sp.Enc = h.KeyCfg{Mode: "tls", Field: h.CertRef{Key: "E1", Window: "wide"}}
	g.Enc = nil
	for i := range g.Model.Assertions {
		alg := h.DataAlgs[i%len(h.DataAlgs)]
		g.Enc = append(g.Enc, &h.EncSpec{DataAlg: alg, Transport: h.Transports[i%3], Digest: "-", To: h.CertRef{Key: "E1", Window: "wide"}, Key: make([]byte, h.KeyLen(alg)), IV: make([]byte, map[bool]int{true: 12, false: 16}[h.IsGCM(alg)])})
	}
}

func genFault(t *rapid.T, nAssert int) Fault {
	if rapid.IntRange(0, 2).Draw(t, "faultScope") == 0 {
		k := rapid.SampledFrom(sortedKeys(respFaults)).Draw(t, "rFault")
		return Fault{Target: -1, Kind: k, Variant: rapid.SampledFrom(respFaults[k]).Draw(t, "rVariant")}
	}
	k := rapid.SampledFrom(sortedKeys(asrtFaults)).Draw(t, "aFault")
	return Fault{Target: rapid.IntRange(0, nAssert-1).Draw(t, "faultPos"), Kind: k, Variant: rapid.SampledFrom(asrtFaults[k]).Draw(t, "aVariant")}
}

func genC03(t *rapid.T) C03Case {
	txt := h.TextOpts{MaxLen: 4}
	atxt := txt
	atxt.NoCDEnd = true // C08's open finding; not what C03 is about
	sp := h.GenSPConfig(txt, atxt).Draw(t, "sp")
	store, signers := trustedStore(t)
	sp.Store = store
	mode := rapid.SampledFrom([]string{"response", "assertions", "both", "skip", "skip-signed"}).Draw(t, "mode")
	g := h.GenGenuine(sp, signers, h.ModelOpts{Text: txt, AttrText: atxt, MaxAssert: 4}, false).Draw(t, "issue")
	switch mode {
	case "skip":
		sp.Skip = true
		g.Placement, g.RespSig, g.AsrtSig = "none", nil, nil
	case "skip-signed":
		sp.Skip = true
	default:
		g.Placement = mode
		if mode != "assertions" && g.RespSig == nil {
			g.RespSig = h.DefaultSign("T1")
		}
		hasNil := false
		for _, sg := range g.AsrtSig {
			hasNil = hasNil || sg == nil
		}
		if mode != "response" && (len(g.AsrtSig) < len(g.Model.Assertions) || hasNil) {
			g.AsrtSig = nil
			for range g.Model.Assertions {
				g.AsrtSig = append(g.AsrtSig, h.DefaultSign("T2"))
			}
		}
	}
	c := C03Case{SP: sp, Issue: g}
	k := rapid.SampledFrom([]int{0, 1, 1, 1, 1, 2, 3}).Draw(t, "k")
	n0 := len(g.Model.Assertions)
	for i := 0; i < k; i++ {
		f := genFault(t, n0)
		if f.Target >= len(g.Model.Assertions) {
			continue
		}
		if spec, ok := applyFault(&g.Model, sp, f); ok {
			c.Faults = append(c.Faults, f)
			c.Expect = append(c.Expect, spec)
		}
	}
	if sp.Skip && len(g.Model.Assertions) > 0 && rapid.IntRange(0, 7).Draw(t, "encryptAll") == 0 {
		c.EncAll = true
		encryptAll(g, &c.SP)
		c.Faults = append(c.Faults, Fault{Target: -1, Kind: "noassertion", Variant: "all-encrypted-under-skip"})
		c.Expect = append(c.Expect, missingAssertion)
	}
	if g.Placement != "response" && g.Placement != "none" {
		// keep one sign spec per remaining assertion
		g.AsrtSig = g.AsrtSig[:min(len(g.AsrtSig), len(g.Model.Assertions))]
		for len(g.AsrtSig) < len(g.Model.Assertions) {
			g.AsrtSig = append(g.AsrtSig, h.DefaultSign("T1"))
		}
	}
	_, enc, _, err := g.Render()
	if err != nil {
		t.Fatalf("harness: cannot issue: %v", err)
	}
	c.Encoded = enc
	return c
}

func min(a, b int) int {
	if a < b {
		return a
	}
	return b
}

// structOf builds the decoded struct directly from the model (for the exported Validate).
func structOf(m *h.ResponseModel) *types.Response {
	r := &types.Response{ID: m.ID.Str(), InResponseTo: m.InResponseTo.Str(), Destination: m.Destination.Str(), Version: m.Version.Str()}
	if m.Issuer.Set {
		r.Issuer = &types.Issuer{Value: m.Issuer.V}
	}
	if m.HasStatus {
		r.Status = &types.Status{}
		if m.HasCode {
			r.Status.StatusCode = &types.StatusCode{Value: m.StatusCode.Str()}
		}
	}
	for _, a := range m.Assertions {
		ta := types.Assertion{ID: a.ID.Str(), Version: a.Version.Str()}
		if a.Issuer.Set {
			ta.Issuer = &types.Issuer{Value: a.Issuer.V}
		}
		if a.HasSubject {
			ta.Subject = &types.Subject{}
			if a.NameID.Set {
				ta.Subject.NameID = &types.NameID{Value: a.NameID.V}
			}
			if a.HasSC {
				ta.Subject.SubjectConfirmation = &types.SubjectConfirmation{Method: a.SCMethod.Str()}
				if a.HasSCD {
					ta.Subject.SubjectConfirmation.SubjectConfirmationData = &types.SubjectConfirmationData{
						NotOnOrAfter: a.SCNotOnOrAfter.Str(), Recipient: a.Recipient.Str(), InResponseTo: a.SCInResponseTo.Str()}
				}
			}
		}
		r.Assertions = append(r.Assertions, ta)
	}
	return r
}

func checkC03(c C03Case) h.Outcome {
	o := h.Outcome{}
	m := &c.Issue.Model
	valid := profileValid(m, c.SP) && !c.encAllSkip()
	if valid != (len(c.Faults) == 0) {
		// harness self-check: every applied fault must invalidate the model and nothing else may
		o.Violation = h.V("harness/model-vs-faults", "profileValid=%v but faults=%v", valid, c.Faults)
		return o
	}
	o.NonTrivial = len(c.Faults) > 0 || len(m.Assertions) >= 2
	mode := c.Issue.Placement
	if c.SP.Skip {
		mode = "skip/" + mode
	}
	o.Classes = append(o.Classes, "mode:"+mode, fmt.Sprintf("k:%d", len(c.Faults)), fmt.Sprintf("issuerConfigured:%v", c.SP.IdPIssuer != ""))
	for _, f := range c.Faults {
		pos := "resp"
		if f.Target >= 0 {
			switch {
			case f.Target == 0:
				pos = "first"
			case f.Target == len(m.Assertions)-1:
				pos = "last"
			default:
				pos = "middle"
			}
		}
		o.Classes = append(o.Classes, "fault:"+pos+"."+f.Kind)
	}
	o.Classes = dedup(o.Classes)

	matches := func(got ErrSpec) bool {
		for _, e := range c.Expect {
			if specMatch(e, got) {
				return true
			}
		}
		return false
	}
	judge := func(entry string, err error) *h.Violation {
		if valid {
			if err != nil {
				return h.V("valid-rejected/"+entry, "%s rejected a profile-conforming genuine response: %v", entry, err)
			}
			return nil
		}
		if err == nil {
			return h.V("invalid-accepted/"+c.Faults[0].Kind, "%s accepted a response violating the profile: faults %v", entry, c.Faults)
		}
		got := specOf(err)
		if !matches(got) {
			return h.V("wrong-error/"+c.Faults[0].Kind, "%s: faults %v expect one of %+v, got %+v (%v)", entry, c.Faults, c.Expect, got, err)
		}
		return nil
	}

	sp := c.SP.Build()
	resp, err := sp.ValidateEncodedResponse(c.Encoded)
	if v := judge("ValidateEncodedResponse", err); v != nil {
		o.Violation = v
		return o
	}
	if err == nil && len(resp.Assertions) != len(m.Assertions) {
		o.Violation = h.V("assertion-count", "accepted with %d assertions, model has %d", len(resp.Assertions), len(m.Assertions))
		return o
	}
	if (err == nil) != (resp != nil) {
		o.Violation = h.V("result-xor-error", "ValidateEncodedResponse: result nil=%v err=%v", resp == nil, err)
		return o
	}
	_, err = c.SP.Build().RetrieveAssertionInfo(c.Encoded)
	if err != nil {
		if _, ok := err.(saml2.ErrVerification); !ok && !valid {
			o.Violation = h.V("unwrapped-error", "RetrieveAssertionInfo error for an invalid response is not ErrVerification: %T %v", err, err)
			return o
		}
	}
	if v := judge("RetrieveAssertionInfo", err); v != nil {
		o.Violation = v
		return o
	}
	if c.encAllSkip() {
		return o // the decoded struct of this message has no assertions; structOf(m) would not be it
	}
	// exported Validate on the decoded struct
	err = c.SP.Build().Validate(structOf(m))
	if v := judge("Validate", err); v != nil {
		o.Violation = v
		return o
	}
	return o
}

func TestC03(t *testing.T)        { h.RunProp(t, "C03", genC03, checkC03) }
func TestC03_Replay(t *testing.T) { h.RunReplay(t, "C03", checkC03) }

// TestC03_Grid enumerates every single fault at every assertion position for every signing mode.
func TestC03_Grid(t *testing.T) {
	var cases []C03Case
	for _, mode := range []string{"response", "assertions", "both", "skip"} {
		for _, issuer := range []bool{true, false} {
			for n := 1; n <= 3; n++ {
				var faults []Fault
				for _, k := range sortedKeys(respFaults) {
					for _, v := range respFaults[k] {
						faults = append(faults, Fault{-1, k, v})
					}
				}
				for pos := 0; pos < n; pos++ {
					for _, k := range sortedKeys(asrtFaults) {
						for _, v := range asrtFaults[k] {
							faults = append(faults, Fault{pos, k, v})
						}
					}
				}
				faults = append(faults, Fault{Target: -2}) // no fault
				for _, f := range faults {
					sp := h.BaseSP()
					if !issuer {
						sp.IdPIssuer = ""
					}
					g := gridGenuine(sp, n, mode)
					if mode == "skip" {
						sp.Skip = true
					}
					c := C03Case{SP: sp, Issue: g}
					if f.Target != -2 {
						spec, ok := applyFault(&g.Model, sp, f)
						if !ok {
							continue
						}
						c.Faults, c.Expect = []Fault{f}, []ErrSpec{spec}
						if len(g.Model.Assertions) == 0 {
							g.AsrtSig = nil
						}
					}
					_, enc, _, err := g.Render()
					if err != nil {
						t.Fatalf("harness: %v", err)
					}
					c.Encoded = enc
					cases = append(cases, c)
				}
			}
		}
	}
	// every assertion encrypted under SkipSignatureValidation (nothing is decrypted there): no assertion to give
	for n := 1; n <= 3; n++ {
		for _, issuer := range []bool{true, false} {
			sp := h.BaseSP()
			sp.Skip = true
			if !issuer {
				sp.IdPIssuer = ""
			}
			g := gridGenuine(sp, n, "skip")
			c := C03Case{SP: sp, Issue: g, EncAll: true, Faults: []Fault{{Target: -1, Kind: "noassertion", Variant: "all-encrypted-under-skip"}}, Expect: []ErrSpec{missingAssertion}}
			encryptAll(g, &c.SP)
			_, enc, _, err := g.Render()
			if err != nil {
				t.Fatalf("harness: %v", err)
			}
			c.Encoded = enc
			cases = append(cases, c)
		}
	}
	h.RunCases(t, "C03", cases, checkC03)
}

// TestC03_GridNoClock: a service provider WITHOUT a Clock follows the system time (the signature library's Clock
// is nil-safe). The documents are dated around 2050 (in the future of any system clock this runs under, so nothing
// is expired) except for the "past-far" bound of 2001; every clock-independent fault is crossed in as well. The
// certificates are the 1960-2260 ones. Nothing here depends on WHERE between 2002 and 2049 the system clock is.
func TestC03_GridNoClock(t *testing.T) {
	var cases []C03Case
	for _, mode := range []string{"response", "assertions", "skip"} {
		for n := 1; n <= 3; n++ {
			faults := []Fault{{Target: -2}}
			for _, k := range sortedKeys(respFaults) {
				faults = append(faults, Fault{-1, k, respFaults[k][0]})
			}
			for pos := 0; pos < n; pos++ {
				faults = append(faults, Fault{pos, "nooa", "past-far"})
				for _, k := range sortedKeys(asrtFaults) {
					for _, v := range asrtFaults[k] {
						if k == "nooa" && (strings.HasPrefix(v, "past") || strings.HasPrefix(v, "equal")) {
							continue // relative to a clock the service provider does not have
						}
						faults = append(faults, Fault{pos, k, v})
						if k != "nooa" {
							break
						}
					}
				}
			}
			for _, f := range faults {
				sp := h.BaseSP()
				sp.NilClock = true
				sp.NowUnixNano = time.Date(2050, 1, 1, 0, 0, 0, 0, time.UTC).UnixNano() // what the documents are dated by
				sp.Store = []h.CertRef{{Key: "T1", Window: "long"}}
				g := gridGenuine(sp, n, mode)
				for _, sg := range append([]*h.SignSpec{g.RespSig}, g.AsrtSig...) {
					if sg != nil {
						sg.Signer.Window = "long"
						e := sg.Signer
						sg.Embed = &e
					}
				}
				if mode == "skip" {
					sp.Skip = true
				}
				c := C03Case{SP: sp, Issue: g}
				if f.Target != -2 {
					spec, ok := applyFault(&g.Model, sp, f)
					if !ok {
						continue
					}
					c.Faults, c.Expect = []Fault{f}, []ErrSpec{spec}
					if len(g.Model.Assertions) == 0 {
						g.AsrtSig = nil
					}
				}
				_, enc, _, err := g.Render()
				if err != nil {
					t.Fatalf("harness: %v", err)
				}
				c.Encoded = enc
				cases = append(cases, c)
			}
		}
	}
	h.RunCases(t, "C03", cases, checkC03)
}

// gridGenuine is a fixed, plain genuine issuance with n assertions.
func gridGenuine(sp h.SPConfig, n int, mode string) *h.Genuine {
	now := sp.Now()
	ts := func(d time.Duration) h.Opt { return h.S(now.Add(d).UTC().Format(time.RFC3339)) }
	m := h.ResponseModel{ID: h.S("_resp"), Version: h.S("2.0"), IssueInstant: ts(-time.Minute), Destination: h.S(sp.ACS),
		Issuer: h.S("https://idp.example.com/metadata"), HasStatus: true, HasCode: true, StatusCode: h.S(h.StatusSuccess)}
	if sp.IdPIssuer != "" {
		m.Issuer = h.S(sp.IdPIssuer)
	}
	for i := 0; i < n; i++ {
		m.Assertions = append(m.Assertions, h.AssertionModel{
			ID: h.S(fmt.Sprintf("_a%d", i)), Version: h.S("2.0"), IssueInstant: ts(-time.Minute), Issuer: m.Issuer,
			HasSubject: true, NameID: h.S(fmt.Sprintf("user%d", i)), HasSC: true, SCMethod: h.S(h.Bearer), HasSCD: true,
			Recipient: h.S(sp.ACS), SCNotOnOrAfter: ts(5 * time.Minute),
			HasConditions: true, NotBefore: ts(-5 * time.Minute), NotOnOrAfter: ts(5 * time.Minute),
			HasAttrStmt: true, Attrs: []h.AttrModel{{Name: "uid", Values: []string{fmt.Sprintf("u%d", i)}}},
		})
	}
	g := &h.Genuine{Model: m, NS: h.NSStyle{P: "samlp", A: "saml"}}
	switch mode {
	case "skip":
		g.Placement = "none"
	default:
		g.Placement = mode
	}
	if g.Placement == "response" || g.Placement == "both" {
		g.RespSig = h.DefaultSign("T1")
	}
	if g.Placement == "assertions" || g.Placement == "both" {
		for i := 0; i < n; i++ {
			g.AsrtSig = append(g.AsrtSig, h.DefaultSign("T1"))
		}
	}
	return g
}
