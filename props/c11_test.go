package props

import (
	"bytes"
	"crypto/tls"
	"encoding/xml"
	"fmt"
	"reflect"
	"testing"

	"github.com/russellhaering/gosaml2/types"
	"pgregory.net/rapid"

	h "verif/harness"
)

// C11 — every advertised encryption method round-trips exactly, on both key APIs.

type C11Case struct {
	Enc        h.EncSpec  `json:"enc"`
	Plain      []byte     `json:"plain"`
	KeyMode    string     `json:"keyMode"` // tls | custom | setter | both
	EAXML      string     `json:"eaXML"`   // serialised EncryptedAssertion element
	Twin       bool       `json:"twin"`    // also run the encrypted-vs-plaintext twin differential
	TwinEnc    string     `json:"twinEnc"`
	TwinRaw    string     `json:"twinRaw"`
	Placement  string     `json:"placement"`
	InheritNS  bool       `json:"inheritNS,omitempty"`
	PlainFirst bool       `json:"plainFirst,omitempty"` // twin: the FIRST assertion stays in clear, the second one is encrypted (Enc)
	Pretty     bool       `json:"pretty,omitempty"`     // twin: white space between the children of the Response (applied before signing) // the twin's encrypted plaintext relies on namespace declarations of the Response
	Enc2       *h.EncSpec `json:"enc2,omitempty"`       // second, independently drawn encryption for the twin\'s second assertion
}

func keyCfg(mode string) h.KeyCfg { return keyCfgW(mode, "wide") }

// keyCfgW: the SP decryption key E1 with its certificate of window w, configured as mode says.
func keyCfgW(mode, w string) h.KeyCfg { return keyCfgK(mode, "E1", w) }

func keyCfgK(mode, key, w string) h.KeyCfg {
	if w == "" {
		w = "wide"
	}
	if key == "" {
		key = "E1"
	}
	e1, e2 := h.CertRef{Key: key, Window: w}, h.CertRef{Key: "E2", Window: "wide"}
	switch mode {
	case "tls", "custom":
		return h.KeyCfg{Mode: mode, Field: e1}
	case "setter":
		return h.KeyCfg{Mode: "setter", Setter: e1}
	case "both":
		return h.KeyCfg{Mode: "both", Field: e2, Setter: e1} // the setter must win
	}
	panic(mode)
}

func genPlain(t *rapid.T) []byte {
	n := rapid.IntRange(0, 96).Draw(t, "plainLen")
	b := rapid.SliceOfN(rapid.Byte(), n, n).Draw(t, "plain")
	switch rapid.IntRange(0, 4).Draw(t, "tail") {
	case 0: // ends in zero bytes
		for i := len(b) - 1; i >= 0 && i >= len(b)-rapid.IntRange(1, 17).Draw(t, "zeros"); i-- {
			b[i] = 0
		}
	case 1: // ends in bytes that look like padding
		p := rapid.IntRange(1, 16).Draw(t, "fakePad")
		for i := len(b) - 1; i >= 0 && i >= len(b)-p; i-- {
			b[i] = byte(p)
		}
	}
	return b
}

func genC11(t *rapid.T) C11Case {
	mode := rapid.SampledFrom([]string{"tls", "custom", "setter", "both"}).Draw(t, "keyMode")
	if h.Open("C11", "setter-key-not-used-for-decryption") && (mode == "setter" || mode == "both") {
		h.CountExcluded("C11", "excluded-by-construction:setter-key")
		mode = "tls"
	}
	c := C11Case{KeyMode: mode, Plain: genPlain(t)}
	to := h.CertRef{Key: "E1", Window: rapid.SampledFrom(h.SPWindows).Draw(t, "spCert")}
	if rapid.IntRange(0, 4).Draw(t, "oddKeySize") == 0 {
		// a modulus whose bit length is not a multiple of 8
		to = h.CertRef{Key: rapid.SampledFrom([]string{"E3", "E4"}).Draw(t, "oddKey"), Window: "wide"}
	}
	c.Enc = *h.GenEncSpec(to).Draw(t, "enc")
	if c.Enc.Recipient != nil {
		c.Enc.RecipWrap = rapid.SampledFrom([]int{0, 0, 64, 76, -64, -76, 1}).Draw(t, "recipWrap")
	}
	c.Enc.KeySize = rapid.IntRange(0, 2).Draw(t, "keySizeChild") == 0
	if !c.Enc.Detached {
		c.Enc.Decoy = rapid.SampledFrom([]string{"", "", "other", "garbage"}).Draw(t, "decoyKey")
	}
	c.Twin = rapid.IntRange(0, 2).Draw(t, "twin") == 0
	c.Placement = rapid.SampledFrom([]string{"response", "assertions", "both"}).Draw(t, "placement")
	c.InheritNS = c.Twin && rapid.IntRange(0, 2).Draw(t, "inheritNS") == 0
	c.PlainFirst = c.Twin && rapid.IntRange(0, 2).Draw(t, "plainFirst") == 0
	c.Pretty = c.Twin && rapid.Bool().Draw(t, "pretty")
	if c.Twin && rapid.Bool().Draw(t, "secondEncrypted") {
		c.Enc2 = h.GenEncSpec(to).Draw(t, "enc2")
	}
	if err := c.build(); err != nil {
		t.Fatalf("harness: %v", err)
	}
	return c
}

func (c *C11Case) build() error {
	ea, err := c.Enc.EncryptElement(c.Plain, h.NSStyle{P: "samlp", A: "saml"})
	if err != nil {
		return err
	}
	ea.CreateAttr("xmlns:saml", h.NSAssertion)
	c.EAXML = string(h.Serialize(ea, h.Layout{}))
	if c.Twin {
		sp := h.BaseSP()
		sp.Enc = keyCfgK(c.KeyMode, c.Enc.To.Key, c.Enc.To.Window)
		g := gridGenuine(sp, 2, c.Placement)
		if c.Pretty {
			g.NS.Pretty = 1
		}
		_, raw, _, err := g.Render()
		if err != nil {
			return err
		}
		c.TwinRaw = raw
		e := c.Enc
		g2 := gridGenuine(sp, 2, c.Placement)
		g2.Enc = []*h.EncSpec{&e, c.Enc2}
		if c.PlainFirst {
			g2.Enc = []*h.EncSpec{nil, &e}
		}
		if c.Pretty {
			g2.NS.Pretty = 1
		}
		g2.InheritNS = c.InheritNS
		_, enc, _, err := g2.Render()
		if err != nil {
			return err
		}
		c.TwinEnc = enc
	}
	return nil
}

func checkC11(c C11Case) h.Outcome {
	o := h.Outcome{}
	fixtureCombo := (c.Enc.DataAlg == types.MethodAES128CBC || c.Enc.DataAlg == types.MethodAES256CBC) && c.Enc.Transport == types.MethodRSAOAEP && c.Enc.Digest == "-" && !c.Enc.Detached && c.KeyMode == "tls"
	o.NonTrivial = !fixtureCombo
	o.Classes = []string{"alg:" + shortAlg(c.Enc.DataAlg), "transport:" + shortAlg(c.Enc.Transport), "digest:" + shortAlg(c.Enc.Digest), fmt.Sprintf("detached:%v", c.Enc.Detached),
		fmt.Sprintf("recipient:%v/wrap:%d", c.Enc.Recipient != nil, c.Enc.RecipWrap), "decoy:" + c.Enc.Decoy, fmt.Sprintf("keySize:%v", c.Enc.KeySize), "key:" + c.KeyMode, fmt.Sprintf("len%%16:%d", len(c.Plain)%16), fmt.Sprintf("twin:%v", c.Twin), fmt.Sprintf("twoEncrypted:%v", c.Enc2 != nil), fmt.Sprintf("inheritNS:%v", c.InheritNS), fmt.Sprintf("plainFirst:%v", c.PlainFirst), fmt.Sprintf("pretty:%v", c.Pretty), "spkey:" + c.Enc.To.Key}
	if n := len(c.Plain); n > 0 && c.Plain[n-1] == 0 {
		o.Classes = append(o.Classes, "plain-ends-in-zero")
	}
	setterSig := func(base string) string {
		if c.KeyMode == "setter" || c.KeyMode == "both" {
			return "setter-key-not-used-for-decryption"
		}
		return base
	}
	// (a) exact round trip through the exported decryption routines
	var ea types.EncryptedAssertion
	if err := xml.Unmarshal([]byte(c.EAXML), &ea); err != nil {
		o.Violation = h.V("harness/unmarshal", "cannot unmarshal generated EncryptedAssertion: %v", err)
		return o
	}
	k := h.K("E1")
	if c.Enc.To.Key != "" {
		k = h.K(c.Enc.To.Key)
	}
	w := c.Enc.To.Window
	if w == "" {
		w = "wide"
	}
	cert := &tls.Certificate{Certificate: [][]byte{k.DER[w]}, PrivateKey: k.Signer}
	pt, err := ea.DecryptBytes(cert)
	if err != nil {
		o.Violation = h.V("roundtrip-error/"+shortAlg(c.Enc.DataAlg)+"/"+shortAlg(c.Enc.Transport)+"/"+shortAlg(c.Enc.Digest), "DecryptBytes failed on a well-formed encryption (%d plaintext bytes): %v", len(c.Plain), err)
		return o
	}
	if !bytes.Equal(pt, c.Plain) {
		o.Violation = h.V("roundtrip-mismatch/"+shortAlg(c.Enc.DataAlg), "DecryptBytes returned %d bytes %x, want %d bytes %x", len(pt), pt, len(c.Plain), c.Plain)
		return o
	}
	// (a') the returned bytes stay what they are while further messages are decrypted (a result that aliases
	// a re-used buffer changes under the caller's hands)
	plain2 := make([]byte, len(c.Plain)+1)
	for i := range plain2 {
		plain2[i] = byte(i*7) ^ 0x55
	}
	e2 := c.Enc
	el2, err := e2.EncryptElement(plain2, h.NSStyle{P: "samlp", A: "saml"})
	if err != nil {
		o.Violation = h.V("harness/encrypt2", "cannot encrypt the second message: %v", err)
		return o
	}
	el2.CreateAttr("xmlns:saml", h.NSAssertion)
	var ea2 types.EncryptedAssertion
	if err := xml.Unmarshal(h.Serialize(el2, h.Layout{}), &ea2); err != nil {
		o.Violation = h.V("harness/unmarshal2", "cannot unmarshal the second EncryptedAssertion: %v", err)
		return o
	}
	held := append([]byte(nil), pt...)
	pt2, err := ea2.DecryptBytes(cert)
	if err != nil || !bytes.Equal(pt2, plain2) {
		o.Violation = h.V("roundtrip-mismatch/second/"+shortAlg(c.Enc.DataAlg), "second message: DecryptBytes returned %x (err %v), want %x", pt2, err, plain2)
		return o
	}
	if _, err := ea.DecryptBytes(cert); err != nil {
		o.Violation = h.V("roundtrip-error/repeat/"+shortAlg(c.Enc.DataAlg), "decrypting the same EncryptedAssertion again failed: %v", err)
		return o
	}
	if !bytes.Equal(pt, held) || !bytes.Equal(pt2, plain2) {
		o.Violation = h.V("held-plaintext-changed/"+shortAlg(c.Enc.DataAlg), "bytes returned by DecryptBytes changed while later messages were decrypted: first now %x (was %x), second now %x (was %x)", pt, held, pt2, plain2)
		return o
	}
	// (b) twin differential through full validation, with the SP key configured in every way
	if c.Twin {
		sp := h.BaseSP()
		sp.Enc = keyCfgK(c.KeyMode, c.Enc.To.Key, c.Enc.To.Window)
		r1, err1 := sp.Build().ValidateEncodedResponse(c.TwinRaw)
		r2, err2 := sp.Build().ValidateEncodedResponse(c.TwinEnc)
		if err1 != nil {
			o.Violation = h.V("harness/twin-plain-rejected", "plaintext twin rejected: %v", err1)
			return o
		}
		if err2 != nil {
			o.Violation = h.V(setterSig("twin-encrypted-rejected"), "encrypted twin rejected while the plaintext twin is accepted (key mode %s): %v", c.KeyMode, err2)
			return o
		}
		a, b := *r1, *r2
		a.EncryptedAssertions, b.EncryptedAssertions = nil, nil
		for i := range a.Assertions {
			a.Assertions[i].Signature = nil
		}
		for i := range b.Assertions {
			b.Assertions[i].Signature = nil
		}
		if !reflect.DeepEqual(a, b) {
			d := "assertion count differs"
			if len(a.Assertions) == len(b.Assertions) {
				for i := range a.Assertions {
					if dd := h.Diff(h.ViewOfAssertion(&a.Assertions[i]), h.ViewOfAssertion(&b.Assertions[i])); dd != "" {
						d = fmt.Sprintf("assertion[%d] %s", i, dd)
					}
				}
			}
			o.Violation = h.V("twin-data-differs", "encrypted and plaintext twins give different data: %s", d)
			return o
		}
		i1, e1 := sp.Build().RetrieveAssertionInfo(c.TwinRaw)
		i2, e2 := sp.Build().RetrieveAssertionInfo(c.TwinEnc)
		if e1 != nil || e2 != nil {
			o.Violation = h.V(setterSig("twin-info-rejected"), "RetrieveAssertionInfo: plain err=%v encrypted err=%v", e1, e2)
			return o
		}
		if i1.NameID != i2.NameID || !reflect.DeepEqual(i1.Values, i2.Values) || i1.SessionIndex != i2.SessionIndex || i1.ResponseSignatureValidated != i2.ResponseSignatureValidated {
			o.Violation = h.V("twin-info-differs", "AssertionInfo differs between twins")
			return o
		}
	}
	return o
}

func TestC11(t *testing.T)        { h.RunProp(t, "C11", genC11, checkC11) }
func TestC11_Replay(t *testing.T) { h.RunReplay(t, "C11", checkC11) }

// TestC11_Grid: every combination data alg x transport x digest x placement x recipient x key mode at
// least once, with plaintext lengths sweeping all residues modulo 16; and Decrypt() on an assertion.
func TestC11_Grid(t *testing.T) {
	var cases []C11Case
	i := 0
	for _, alg := range h.DataAlgs {
		for _, tr := range h.Transports {
			for _, dg := range h.DigestChoices {
				for _, det := range []bool{false, true} {
					for _, rec := range []bool{false, true} {
						for _, mode := range []string{"tls", "custom", "setter", "both"} {
							i++
							if h.Open("C11", "setter-key-not-used-for-decryption") && (mode == "setter" || mode == "both") {
								h.CountExcluded("C11", "excluded-by-construction:setter-key")
								continue
							}
							n := i % 49
							plain := make([]byte, n)
							for j := range plain {
								plain[j] = byte(i*31 + j*7)
							}
							if i%3 == 0 && n > 0 {
								plain[n-1] = 0
							}
							ivn := 16
							if h.IsGCM(alg) {
								ivn = 12
							}
							e := h.EncSpec{DataAlg: alg, Transport: tr, Digest: dg, Detached: det, To: h.CertRef{Key: []string{"E1", "E1", "E3", "E1", "E4"}[i%5], Window: "wide"}, Key: bytes.Repeat([]byte{byte(i)}, h.KeyLen(alg)), IV: bytes.Repeat([]byte{byte(i * 3)}, ivn), PadFill: byte(i)}
							if rec {
								r := e.To
								e.Recipient = &r
							}
							c := C11Case{Enc: e, Plain: plain, KeyMode: mode, Twin: i%4 == 0, InheritNS: i%8 == 0, PlainFirst: i%12 == 0, Pretty: i%8 == 4 || i%12 == 0, Placement: []string{"response", "assertions", "both"}[i%3]}
							if c.Twin && i%8 == 0 {
								// second assertion: the opposite key placement and another digest choice
								e2 := e
								e2.Detached = !e.Detached
								e2.Digest = h.DigestChoices[(i/8)%len(h.DigestChoices)]
								e2.Transport = h.Transports[(i/8)%2]
								c.Enc2 = &e2
							}
							if err := c.build(); err != nil {
								t.Fatalf("harness: %v", err)
							}
							cases = append(cases, c)
						}
					}
				}
			}
		}
	}
	// large plaintexts (a few hundred group memberships): the ciphertext text is ONE unbroken base64 run of more than
	// 4 KiB / 64 KiB / 128 KiB characters — sizes around what buffered readers and tokenisers cap at
	for bi, n := range []int{3071, 3072, 4096, 49151, 49152, 49153, 65535, 65536, 98304, 100000} {
		for ai, alg := range []string{h.DataAlgs[0], h.DataAlgs[3], h.DataAlgs[2]} {
			plain := make([]byte, n)
			for j := range plain {
				plain[j] = byte(j*13 + bi)
			}
			ivn := 16
			if h.IsGCM(alg) {
				ivn = 12
			}
			e := h.EncSpec{DataAlg: alg, Transport: h.Transports[(bi+ai)%3], Digest: "-", Detached: (bi+ai)%2 == 0, To: h.CertRef{Key: "E1", Window: "wide"}, Key: bytes.Repeat([]byte{byte(bi + 1)}, h.KeyLen(alg)), IV: bytes.Repeat([]byte{byte(ai + 1)}, ivn)}
			c := C11Case{Enc: e, Plain: plain, KeyMode: []string{"tls", "setter", "custom"}[ai]}
			if err := c.build(); err != nil {
				t.Fatalf("harness: %v", err)
			}
			cases = append(cases, c)
		}
	}
	h.RunCases(t, "C11", cases, checkC11)
}

// TestC11_GridMetadata: every method the metadata advertises is one the grid exercises, and Decrypt()
// returns the assertion equal to unmarshalling the plaintext directly.
func TestC11_GridMetadata(t *testing.T) {
	defer h.Flush()
	sp := h.BaseSP()
	sp.Enc = keyCfg("tls")
	exercised := map[string]bool{}
	for _, a := range h.DataAlgs {
		exercised[a] = true
	}
	for _, slo := range []bool{false, true} {
		var md *types.EntityDescriptor
		var err error
		if slo {
			md, err = sp.Build().MetadataWithSLO(24)
		} else {
			md, err = sp.Build().Metadata()
		}
		if err != nil {
			t.Fatalf("metadata: %v", err)
		}
		for _, kd := range md.SPSSODescriptor.KeyDescriptors {
			for _, m := range kd.EncryptionMethods {
				c := struct{ Alg string }{m.Algorithm}
				report(t, "C11.meta", c, func(c struct{ Alg string }) h.Outcome {
					o := h.Outcome{NonTrivial: true, Classes: []string{"advertised:" + shortAlg(c.Alg)}}
					if !exercised[c.Alg] {
						o.Violation = h.V("advertised-method-not-decryptable/"+shortAlg(c.Alg), "metadata advertises %s which the round-trip grid does not cover", c.Alg)
					}
					return o
				})
			}
		}
	}
	// Decrypt(): struct equality with direct unmarshalling of the plaintext
	g := gridGenuine(sp, 1, "assertions")
	root, _ := g.Tree()
	det, _ := h.DetachedCopy(h.AssertionElements(root)[0])
	plain := h.Serialize(det, h.Layout{})
	for i, alg := range h.DataAlgs {
		ivn := 16
		if h.IsGCM(alg) {
			ivn = 12
		}
		e := h.EncSpec{DataAlg: alg, Transport: h.Transports[i%3], Digest: "-", To: h.CertRef{Key: "E1", Window: "wide"}, Key: make([]byte, h.KeyLen(alg)), IV: make([]byte, ivn)}
		c := C11Case{Enc: e, Plain: plain, KeyMode: "tls"}
		if err := c.build(); err != nil {
			t.Fatal(err)
		}
		report(t, "C11.decrypt", c, func(c C11Case) h.Outcome {
			o := h.Outcome{NonTrivial: true, Classes: []string{"Decrypt():" + shortAlg(c.Enc.DataAlg)}}
			var ea types.EncryptedAssertion
			if err := xml.Unmarshal([]byte(c.EAXML), &ea); err != nil {
				o.Violation = h.V("harness/unmarshal", "%v", err)
				return o
			}
			k := h.K("E1")
			got, err := ea.Decrypt(&tls.Certificate{Certificate: [][]byte{k.DER["wide"]}, PrivateKey: k.Signer})
			if err != nil {
				o.Violation = h.V("decrypt-error", "Decrypt failed: %v", err)
				return o
			}
			want := &types.Assertion{}
			if err := xml.Unmarshal(c.Plain, want); err != nil {
				o.Violation = h.V("harness/unmarshal-plain", "%v", err)
				return o
			}
			if !reflect.DeepEqual(got, want) {
				o.Violation = h.V("decrypt-mismatch", "Decrypt() differs from unmarshalling the plaintext")
			}
			return o
		})
	}
}
