package props

import (
	"fmt"
	"reflect"
	"strconv"
	"strings"
	"testing"
	"time"

	"pgregory.net/rapid"

	h "verif/harness"
)

// C06 — audience, one-time-use and proxy warnings mirror the signed conditions exactly.

type C06Case struct {
	Window  string           `json:"window"` // in | not-yet-valid | conditions-expired (accepted with InvalidTime)
	SP      h.SPConfig       `json:"sp"`
	First   h.AssertionModel `json:"first"` // conditions of the first assertion (the one that counts)
	Others  int              `json:"others"`
	Mode    string           `json:"mode"`
	Encoded string           `json:"encoded"`
	// NoAttrs: the first assertion carries no AttributeStatement (the service provider allows that:
	// AllowMissingAttributes) while the later ones do — the conditions reported are still the FIRST assertion's.
	NoAttrs bool `json:"noAttrs,omitempty"`
}

// otherConfigured are OTHER configured strings of the SP (entity ID, ACS, IdP issuer): plausible audience
// values that are nevertheless not the configured audience URI.
var otherConfigured []string

// globAudiences: configured audience URIs that contain characters special to glob / pattern / regexp matchers.
var globAudiences = []string{"https://sp.example.com/saml?tenant=42", "https://[::1]:8443/saml", "urn:sp:*", "https://sp.example.com/a\\b", "https://sp.example.com/(saml)+", "https://sp.example.com/saml.", "https://*.example.com/saml", "urn:sp:[a-z]", "^https://sp.example.com$", "https://sp.example.com/%", "https://sp.example.com/_"}

// globMiss returns a value that differs from uri but that uri, read as a glob / regexp / LIKE pattern, matches.
func globMiss(uri string) string {
	var sb strings.Builder
	changed := false
	for i := 0; i < len(uri); i++ {
		c := uri[i]
		switch {
		case c == '?' || c == '.' || c == '_':
			sb.WriteByte('x')
			changed = true
		case c == '*' || c == '%':
			sb.WriteString("zz")
			changed = true
		case c == '\\' && i+1 < len(uri):
			changed = true // the escape character disappears, the next character stays
		case c == '[':
			if j := strings.IndexByte(uri[i:], ']'); j > 1 {
				sb.WriteByte(uri[i+1])
				if uri[i+1] == ':' {
					sb.Reset()
					sb.WriteString(uri[:i] + "1")
				}
				i += j
				changed = true
				continue
			}
			sb.WriteByte(c)
		case c == '^' || c == '$' || c == '(' || c == ')' || c == '+':
			changed = true
		default:
			sb.WriteByte(c)
		}
	}
	if !changed {
		return uri + "x"
	}
	return sb.String()
}

func genAudienceValue(t *rapid.T, uri string) string {
	if len(otherConfigured) > 0 && rapid.IntRange(0, 5).Draw(t, "audOtherConfigured") == 0 {
		return rapid.SampledFrom(otherConfigured).Draw(t, "audOther")
	}
	switch rapid.IntRange(0, 10).Draw(t, "audKind") {
	case 10:
		return globMiss(uri)
	case 0, 1, 2:
		return uri
	case 3:
		return nearMiss(uri, "slash")
	case 4:
		return nearMiss(uri, "case")
	case 5:
		return nearMiss(uri, "space")
	case 6:
		return nearMiss(uri, "lspace")
	case 7:
		return ""
	case 8:
		return "\n  " + uri + "\n"
	}
	return h.GenText(h.TextOpts{MaxLen: 3}).Draw(t, "audFree")
}

func genC06(t *rapid.T) C06Case {
	sp := h.BaseSP()
	switch rapid.IntRange(0, 6).Draw(t, "audienceCfg") {
	case 5, 6:
		sp.Audience = rapid.SampledFrom(globAudiences).Draw(t, "audienceGlob")
	case 0:
		sp.Audience = ""
	case 1:
		sp.Audience = h.GenText(h.TextOpts{MaxLen: 4}).Draw(t, "audienceURI")
	case 2:
		sp.Audience = "HTTPS://SP.example.com/Metadata/"
	}
	if rapid.Bool().Draw(t, "noSPIssuer") {
		sp.SPIssuer = ""
	}
	otherConfigured = []string{sp.SPIssuer, sp.ACS, sp.IdPIssuer, sp.SLO}
	c := C06Case{SP: sp, Mode: rapid.SampledFrom([]string{"response", "assertions", "both", "skip"}).Draw(t, "mode"), Others: rapid.IntRange(0, 2).Draw(t, "others")}
	c.Window = rapid.SampledFrom([]string{"in", "in", "not-yet-valid", "conditions-expired"}).Draw(t, "window")
	if c.Mode == "skip" {
		c.SP.Skip = true
	}
	a := &c.First
	nr := rapid.IntRange(0, 4).Draw(t, "nRestrictions")
	for i := 0; i < nr; i++ {
		na := rapid.IntRange(0, 4).Draw(t, "nAudiences")
		auds := []string{}
		for j := 0; j < na; j++ {
			auds = append(auds, genAudienceValue(t, sp.Audience))
		}
		a.Audiences = append(a.Audiences, auds)
	}
	// a LATER restriction whose single audience is the JOIN of an earlier restriction's audiences (what a careless
	// cache / set key of a restriction looks like): it is a different, unsatisfied restriction
	if len(a.Audiences) >= 1 && rapid.IntRange(0, 3).Draw(t, "joinedRestriction") == 0 {
		src := a.Audiences[rapid.IntRange(0, len(a.Audiences)-1).Draw(t, "joinOf")]
		if len(src) >= 2 {
			sep := rapid.SampledFrom([]string{",", " ", ";", "|", "", "\n", ", ", "\t"}).Draw(t, "joinSep")
			joined := strings.Join(src, sep)
			if rapid.Bool().Draw(t, "joinTrailingSep") {
				joined += sep
			}
			a.Audiences = append(a.Audiences, []string{joined})
		}
	}
	a.OneTimeUse = rapid.Bool().Draw(t, "oneTimeUse")
	if rapid.Bool().Draw(t, "proxy") {
		a.HasProxy = true
		if rapid.Bool().Draw(t, "countSet") {
			n := rapid.OneOf(rapid.IntRange(0, 3), rapid.IntRange(0, 1<<31-1), rapid.SampledFrom([]int{8, 9, 10, 64, 100, 777})).Draw(t, "count")
			// every lexical form of the same xs:nonNegativeInteger: leading zeros, a sign, surrounding blanks
			spell := rapid.SampledFrom([]string{"%d", "%d", "%d", "0%d", "00%d", "+%d", " %d ", "\n%d\t", "+0%d", "%03d", "%010d"}).Draw(t, "countSpelling")
			a.ProxyCount = h.S(fmt.Sprintf(spell, n))
		}
		np := rapid.IntRange(0, 3).Draw(t, "nProxyAud")
		for j := 0; j < np; j++ {
			a.ProxyAudience = append(a.ProxyAudience, genAudienceValue(t, sp.Audience))
		}
	}
	c.SP.AllowMissing = rapid.Bool().Draw(t, "allowMissingAttributes")
	c.NoAttrs = c.SP.AllowMissing && rapid.Bool().Draw(t, "firstWithoutAttributes")
	if rapid.IntRange(0, 5).Draw(t, "foreignCond") == 0 {
		a.ForeignCond = rapid.SampledFrom([]int{1, 2, 4, 8, 16, 3, 12, 31}).Draw(t, "foreignBits")
	}
	finishC06(&c, func(err error) { t.Fatalf("harness: %v", err) })
	return c
}

func finishC06(c *C06Case, fail func(error)) {
	g := gridGenuine(c.SP, 1+c.Others, c.Mode)
	f := &g.Model.Assertions[0]
	f.Audiences, f.OneTimeUse, f.HasProxy, f.ProxyCount, f.ProxyAudience = c.First.Audiences, c.First.OneTimeUse, c.First.HasProxy, c.First.ProxyCount, c.First.ProxyAudience
	f.ForeignCond = c.First.ForeignCond
	if c.NoAttrs {
		f.HasAttrStmt, f.Attrs = false, nil
	}
	switch c.Window {
	case "not-yet-valid":
		f.NotBefore = h.S(c.SP.Now().Add(time.Minute).UTC().Format(time.RFC3339))
	case "conditions-expired":
		f.NotOnOrAfter = h.S(c.SP.Now().Add(-time.Minute).UTC().Format(time.RFC3339))
	}
	wantNIA := notInAudience(c.First.Audiences, c.SP.Audience)
	for i := 1; i < len(g.Model.Assertions); i++ {
		// later assertions carry the opposite conditions, to catch reading the wrong assertion
		o := &g.Model.Assertions[i]
		if wantNIA {
			o.Audiences = [][]string{{c.SP.Audience}}
		} else {
			o.Audiences = [][]string{{c.SP.Audience + "-other"}}
		}
		o.OneTimeUse = !c.First.OneTimeUse
		o.HasProxy = !c.First.HasProxy
		o.ProxyCount = h.S("7")
		o.ProxyAudience = []string{"urn:other"}
	}
	_, enc, _, err := g.Render()
	if err != nil {
		fail(err)
	}
	c.Encoded = enc
}

// notInAudience is the model: restrictions are conjunctive, audiences within one disjunctive, comparison exact.
func notInAudience(restrictions [][]string, uri string) bool {
	for _, r := range restrictions {
		matched := false
		for _, a := range r {
			if a == uri {
				matched = true
			}
		}
		if !matched {
			return true
		}
	}
	return false
}

func checkC06(c C06Case) h.Outcome {
	o := h.Outcome{}
	near, emptyR := false, false
	for _, r := range c.First.Audiences {
		if len(r) == 0 {
			emptyR = true
		}
		for _, a := range r {
			if a != c.SP.Audience && a != "" {
				near = true
			}
		}
	}
	multi := len(c.First.Audiences) >= 2
	for _, r := range c.First.Audiences {
		if len(r) >= 2 {
			multi = true
		}
	}
	o.NonTrivial = multi || emptyR || near || c.SP.Audience == ""
	o.Classes = append(o.Classes, fmt.Sprintf("allowMissing:%v/firstNoAttrs:%v", c.SP.AllowMissing, c.NoAttrs), "window:"+c.Window, "mode:"+c.Mode, fmt.Sprintf("restrictions:%d", len(c.First.Audiences)), fmt.Sprintf("otu:%v", c.First.OneTimeUse), fmt.Sprintf("proxy:%v", c.First.HasProxy), fmt.Sprintf("others:%d", c.Others))
	if emptyR {
		o.Classes = append(o.Classes, "empty-restriction")
	}
	if near {
		o.Classes = append(o.Classes, "non-matching-value")
	}
	if c.SP.Audience == "" {
		o.Classes = append(o.Classes, "empty-configured-uri")
	}
	info, err := c.SP.Build().RetrieveAssertionInfo(c.Encoded)
	if c.First.ForeignCond != 0 {
		// look-alike elements of a foreign namespace among the conditions: refusing the message is fine; when it is
		// accepted they are not conditions and nothing of them may show below
		o.NonTrivial = true
		o.Classes = append(o.Classes, fmt.Sprintf("foreign-conditions:%d/accepted:%v", c.First.ForeignCond, err == nil))
		if err != nil {
			return o
		}
	}
	if err != nil {
		o.Violation = h.V("valid-rejected", "genuine response rejected: %v", err)
		return o
	}
	w := info.WarningInfo
	if w == nil {
		o.Violation = h.V("nil-warninginfo", "no WarningInfo")
		return o
	}
	if want := notInAudience(c.First.Audiences, c.SP.Audience); w.NotInAudience != want {
		o.Violation = h.V("notinaudience-mismatch", "NotInAudience=%v want %v for restrictions %q and URI %q", w.NotInAudience, want, c.First.Audiences, c.SP.Audience)
		return o
	}
	if w.OneTimeUse != c.First.OneTimeUse {
		o.Violation = h.V("onetimeuse-mismatch", "OneTimeUse=%v want %v", w.OneTimeUse, c.First.OneTimeUse)
		return o
	}
	if (w.ProxyRestriction != nil) != c.First.HasProxy {
		o.Violation = h.V("proxy-presence-mismatch", "ProxyRestriction present=%v want %v", w.ProxyRestriction != nil, c.First.HasProxy)
		return o
	}
	if c.First.HasProxy {
		wantCount := 0
		if c.First.ProxyCount.Set {
			n, perr := strconv.ParseInt(strings.TrimSpace(c.First.ProxyCount.V), 10, 64) // decimal, whatever the spelling
			if perr != nil {
				o.Violation = h.V("harness/count", "harness produced an unparsable Count %q", c.First.ProxyCount.V)
				return o
			}
			wantCount = int(n)
		}
		if w.ProxyRestriction.Count != wantCount {
			o.Violation = h.V("proxy-count-mismatch", "Count=%d want %d", w.ProxyRestriction.Count, wantCount)
			return o
		}
		want := append([]string{}, c.First.ProxyAudience...)
		if w.ProxyRestriction.Audience == nil || !reflect.DeepEqual(w.ProxyRestriction.Audience, want) {
			o.Violation = h.V("proxy-audience-mismatch", "Audience=%q want %q (empty list, not nil, when none)", w.ProxyRestriction.Audience, want)
			return o
		}
	}
	if wantIT := c.Window == "not-yet-valid" || c.Window == "conditions-expired"; w.InvalidTime != wantIT {
		o.Violation = h.V("invalidtime-mismatch", "InvalidTime=%v for window %q", w.InvalidTime, c.Window)
		return o
	}
	// the exported evaluator, called directly on the returned first assertion, says the same
	if len(info.Assertions) > 0 {
		w2, err := c.SP.Build().VerifyAssertionConditions(&info.Assertions[0])
		if err != nil || w2 == nil || !reflect.DeepEqual(*w2, *w) {
			o.Violation = h.V("direct-evaluation-differs", "VerifyAssertionConditions on the returned first assertion gives %+v (err %v), RetrieveAssertionInfo reported %+v", w2, err, w)
		}
	}
	return o
}

func TestC06(t *testing.T)        { h.RunProp(t, "C06", genC06, checkC06) }
func TestC06_Replay(t *testing.T) { h.RunReplay(t, "C06", checkC06) }

// TestC06_Grid enumerates all restriction shapes up to 3 restrictions x 2 audiences over {match, miss}
// crossed with OneTimeUse / ProxyRestriction presence.
func TestC06_Grid(t *testing.T) {
	var cases []C06Case
	vals := func(uri string) []string { return []string{uri, uri + "/"} }
	var shapes [][]string // one restriction = list of audiences
	shapes = append(shapes, []string{})
	for _, a := range vals("U") {
		shapes = append(shapes, []string{a})
		for _, b := range vals("U") {
			shapes = append(shapes, []string{a, b})
		}
	}
	for _, uri := range []string{"https://sp.example.com/metadata", ""} {
		sub := func(r []string) []string {
			out := []string{}
			for _, v := range r {
				out = append(out, uri+v[1:])
			}
			return out
		}
		var lists [][][]string
		lists = append(lists, nil)
		for _, r1 := range shapes {
			lists = append(lists, [][]string{sub(r1)})
			for _, r2 := range shapes {
				lists = append(lists, [][]string{sub(r1), sub(r2)})
			}
		}
		for i, l := range lists {
			sp := h.BaseSP()
			sp.Audience = uri
			c := C06Case{SP: sp, Mode: []string{"response", "assertions", "skip"}[i%3], Others: i % 2, Window: []string{"in", "not-yet-valid", "conditions-expired", "in"}[i%4]}
			if c.Mode == "skip" {
				c.SP.Skip = true
			}
			c.First.Audiences = l
			c.First.OneTimeUse = i%2 == 0
			c.First.HasProxy = i%3 == 0
			if i%6 == 0 {
				c.First.ProxyCount = h.S(fmt.Sprintf([]string{"%d", "0%d", "+%d", " %d ", "%04d"}[(i/6)%5], i))
				c.First.ProxyAudience = []string{"urn:a", uri}
			}
			finishC06(&c, func(err error) { t.Fatalf("harness: %v", err) })
			cases = append(cases, c)
		}
	}
	for i, uri := range []string{"", "https://sp.example.com/audience"} {
		for _, l := range [][][]string{{{"https://sp.example.com/metadata"}}, {{"https://sp.example.com/metadata", "urn:x"}}, {{uri}, {"https://sp.example.com/metadata"}}, {{"https://sp.example.com/saml/acs"}}} {
			sp := h.BaseSP()
			sp.Audience = uri
			c := C06Case{SP: sp, Mode: []string{"response", "assertions"}[i%2], Window: "in"}
			c.First.Audiences = l
			finishC06(&c, func(err error) { t.Fatalf("harness: %v", err) })
			cases = append(cases, c)
		}
	}
	// satisfied multi-audience restriction followed by (or preceded by) the restriction made of their join
	for i, sep := range []string{",", " ", ";", "|", "", ", "} {
		for j, order := range []int{0, 1} {
			sp := h.BaseSP()
			first := []string{"urn:partner", sp.Audience}
			joined := []string{strings.Join(first, sep)}
			c := C06Case{SP: sp, Mode: []string{"response", "assertions"}[(i+j)%2], Window: "in"}
			c.First.Audiences = [][]string{first, joined}
			if order == 1 {
				c.First.Audiences = [][]string{joined, first}
			}
			finishC06(&c, func(err error) { t.Fatalf("harness: %v", err) })
			cases = append(cases, c)
			c2 := C06Case{SP: sp, Mode: "response", Window: "in"}
			c2.First.Audiences = [][]string{first, {strings.Join(first, sep) + sep}, first}
			finishC06(&c2, func(err error) { t.Fatalf("harness: %v", err) })
			cases = append(cases, c2)
		}
	}
	// first assertion without AttributeStatement under AllowMissingAttributes, later ones with attributes and the
	// opposite conditions
	for i, l := range [][][]string{nil, {{"urn:other"}}, {{"https://sp.example.com/metadata"}}, {{"https://sp.example.com/metadata"}, {"urn:other"}}} {
		for others := 1; others <= 2; others++ {
			sp := h.BaseSP()
			sp.AllowMissing = true
			c := C06Case{SP: sp, Mode: []string{"response", "assertions", "skip"}[(i+others)%3], Window: "in", Others: others, NoAttrs: true}
			if c.Mode == "skip" {
				c.SP.Skip = true
			}
			c.First.Audiences = l
			c.First.OneTimeUse = i%2 == 0
			c.First.HasProxy = i%2 == 1
			if c.First.HasProxy {
				c.First.ProxyCount, c.First.ProxyAudience = h.S("3"), []string{"urn:first"}
			}
			finishC06(&c, func(err error) { t.Fatalf("harness: %v", err) })
			cases = append(cases, c)
		}
	}
	// look-alike elements of a foreign namespace among the conditions
	for i, bits := range []int{1, 2, 4, 8, 16, 3, 5, 9, 24, 31} {
		for j, withOwn := range []bool{false, true} {
			sp := h.BaseSP()
			c := C06Case{SP: sp, Mode: []string{"response", "assertions", "skip"}[(i+j)%3], Window: "in"}
			if c.Mode == "skip" {
				c.SP.Skip = true
			}
			c.First.ForeignCond = bits
			c.First.Audiences = [][]string{{sp.Audience}}
			c.First.HasProxy = withOwn || bits&1 != 0
			if withOwn {
				c.First.OneTimeUse, c.First.ProxyCount, c.First.ProxyAudience = true, h.S("2"), []string{"urn:a"}
			}
			finishC06(&c, func(err error) { t.Fatalf("harness: %v", err) })
			cases = append(cases, c)
		}
	}
	// configured URIs with pattern metacharacters: exact match, pattern-only match, plain miss
	for i, uri := range globAudiences {
		for j, aud := range []string{uri, globMiss(uri), uri + "x"} {
			sp := h.BaseSP()
			sp.Audience = uri
			c := C06Case{SP: sp, Mode: []string{"response", "assertions"}[(i+j)%2], Window: "in"}
			c.First.Audiences = [][]string{{aud}}
			if j == 1 {
				c.First.HasProxy, c.First.ProxyAudience = true, []string{aud, uri}
			}
			finishC06(&c, func(err error) { t.Fatalf("harness: %v", err) })
			cases = append(cases, c)
		}
	}
	h.RunCases(t, "C06", cases, checkC06)
}
