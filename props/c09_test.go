package props

import (
	"crypto/tls"
	"encoding/base64"
	"encoding/pem"
	"fmt"
	dsig "github.com/russellhaering/goxmldsig"
	"math"
	"strings"
	"testing"
	"time"

	"github.com/beevik/etree"
	saml2 "github.com/russellhaering/gosaml2"
	"github.com/russellhaering/gosaml2/types"
	"pgregory.net/rapid"

	h "verif/harness"
)

// C09 — every decoding entry point is total: any input yields a result or an error, never a panic.

// spVariants are the SP configurations every input is presented to.
func c09Config(i int) h.SPConfig {
	sp := h.BaseSP()
	switch i % 8 {
	case 0: // empty store, no keys, no clock
		sp.Store, sp.NilClock = nil, true
	case 1:
		sp.Enc = h.KeyCfg{Mode: "tls", Field: h.CertRef{Key: "E1", Window: "wide"}}
	case 2:
		sp.Enc = h.KeyCfg{Mode: "custom", Field: h.CertRef{Key: "E1", Window: "wide"}}
		sp.Store = []h.CertRef{{Key: "T1", Window: "wide"}, {Key: "T2", Window: "wide"}, {Key: "T3", Window: "wide"}}
		sp.ValidateEncCert = true
	case 3:
		sp.Skip = true
		sp.Enc = h.KeyCfg{Mode: "tls", Field: h.CertRef{Key: "E1", Window: "wide"}}
	case 4:
		sp.Enc = h.KeyCfg{Mode: "setter", Setter: h.CertRef{Key: "E1", Window: "wide"}}
		sp.MaxSize = 64
	case 5:
		sp.Skip, sp.NilClock, sp.Store = true, true, nil
		sp.MaxSize = 1
	case 6:
		sp.Enc = h.KeyCfg{Mode: "both", Field: h.CertRef{Key: "E2", Window: "wide"}, Setter: h.CertRef{Key: "E1", Window: "wide"}}
		sp.IdPIssuer = ""
	case 7:
		sp.Enc = h.KeyCfg{Mode: "tls", Field: h.CertRef{Key: "E1", Window: "past"}}
		sp.ValidateEncCert = true
		sp.Skip = true
	}
	return sp
}

type C09Case struct {
	Kind  string `json:"kind"` // how the input was made
	Cfg   int    `json:"cfg"`
	Input string `json:"input"` // the encoded string handed to the entry points
	Stage string `json:"stage"` // deepest stage the generator aimed at
}

// totality runs every string entry point and reports the first contract breach.
func totality(sp h.SPConfig, input string) (*h.Violation, []string) {
	return totalityWith(func() *saml2.SAMLServiceProvider { return sp.Build() }, input)
}

// c09Variants: number of SP configurations (c09Config 0..7 plus the odd-certificate ones of c09Build).
const c09Variants = 18

// c09Build builds configuration i: 0..7 as c09Config, 8.. SPs whose OWN certificate is unusable in some way
// (PEM text instead of DER, garbage, empty, absent) with and without certificate validation — the decoders
// must still be total.
func c09Build(i int) *saml2.SAMLServiceProvider {
	i %= c09Variants
	if i < 8 {
		return c09Config(i).Build()
	}
	k := h.K("E1")
	pemBytes := pem.EncodeToMemory(&pem.Block{Type: "CERTIFICATE", Bytes: k.DER["wide"]})
	sp := h.BaseSP().Build()
	switch i {
	case 8: // PEM handed to the setter, validation on
		sp.ValidateEncryptionCert = true
		_ = sp.SetSPKeyStore(&saml2.KeyStore{Signer: k.Signer, Cert: pemBytes})
	case 9: // garbage certificate through the deprecated field, validation on
		sp.ValidateEncryptionCert = true
		sp.SPKeyStore = &fixedStore{key: k.RSA, cert: []byte("this is not a certificate")}
	case 10: // TLS store without any certificate, validation on
		sp.ValidateEncryptionCert = true
		sp.SPKeyStore = dsig.TLSCertKeyStore{PrivateKey: k.Signer}
	case 11: // empty certificate through the setter, validation off, no signature checking
		sp.SkipSignatureValidation = true
		_ = sp.SetSPKeyStore(&saml2.KeyStore{Signer: k.Signer, Cert: []byte{}})
	case 12: // truncated DER, validation on, three-certificate IdP store
		sp.ValidateEncryptionCert = true
		sp.IDPCertificateStore = h.Store([]h.CertRef{{Key: "T1", Window: "wide"}, {Key: "T2", Window: "wide"}, {Key: "T3", Window: "wide"}})
		sp.SPKeyStore = &fixedStore{key: k.RSA, cert: k.DER["wide"][:len(k.DER["wide"])/2]}
	case 14, 15, 16, 17: // boundary values of the inflation limit (math.MaxInt64 is the natural "no limit")
		sp.MaximumDecompressedBodySize = []int64{math.MaxInt64, math.MinInt64, -2, -1}[i-14]
		sp.SPKeyStore = h.TLSStore(h.CertRef{Key: "E1", Window: "wide"})
		if i%2 == 0 {
			sp.SkipSignatureValidation = true
		}
	case 13: // PEM through the field, validation on, no clock
		sp.ValidateEncryptionCert = true
		sp.Clock = nil
		sp.SPKeyStore = dsig.TLSCertKeyStore{Certificate: [][]byte{pemBytes}, PrivateKey: k.Signer}
	}
	return sp
}

// totalityWith runs every string entry point on the service provider(s) newSP supplies (a fresh one per call,
// or one long-lived instance) and reports the first contract breach.
func totalityWith(newSP func() *saml2.SAMLServiceProvider, input string) (*h.Violation, []string) {
	var stages []string
	type call struct {
		name string
		f    func() (bool, error) // (result non-nil, error)
	}
	calls := []call{
		{"ValidateEncodedResponse", func() (bool, error) { r, err := newSP().ValidateEncodedResponse(input); return r != nil, err }},
		{"RetrieveAssertionInfo", func() (bool, error) { r, err := newSP().RetrieveAssertionInfo(input); return r != nil, err }},
		{"DecodeUnverifiedBaseResponse", func() (bool, error) { r, err := saml2.DecodeUnverifiedBaseResponse(input); return r != nil, err }},
		{"DecodeUnverifiedLogoutResponse", func() (bool, error) { r, err := saml2.DecodeUnverifiedLogoutResponse(input); return r != nil, err }},
		{"ValidateEncodedLogoutRequestPOST", func() (bool, error) {
			r, err := newSP().ValidateEncodedLogoutRequestPOST(input)
			return r != nil, err
		}},
		{"ValidateEncodedLogoutResponsePOST", func() (bool, error) {
			r, err := newSP().ValidateEncodedLogoutResponsePOST(input)
			return r != nil, err
		}},
	}
	for _, c := range calls {
		var has bool
		var err error
		if pv := h.Guard(func() { has, err = c.f() }); pv != nil {
			pv.Detail = c.name + ": " + pv.Detail
			return pv, stages
		}
		if has == (err != nil) {
			return h.V("result-xor-error/"+c.name, "%s returned result non-nil=%v together with err=%v", c.name, has, err), stages
		}
		if c.name == "ValidateEncodedResponse" {
			if err == nil {
				stages = append(stages, "stage:accepted")
			} else {
				stages = append(stages, "stage:"+rejectStage(err))
			}
		}
	}
	return nil, stages
}

func checkC09(c C09Case) h.Outcome {
	o := h.Outcome{Classes: []string{"gen:" + c.Kind, fmt.Sprintf("cfg:%d", c.Cfg%c09Variants)}}
	v, stages := totalityWith(func() *saml2.SAMLServiceProvider { return c09Build(c.Cfg) }, c.Input)
	o.Classes = append(o.Classes, stages...)
	o.Violation = v
	// non-trivial: the input got past base64 and XML parsing
	for _, s := range stages {
		if s != "stage:parse" && s != "stage:other" {
			o.NonTrivial = true
		}
	}
	if c.Stage != "" {
		o.Classes = append(o.Classes, "aim:"+c.Stage)
	}
	return o
}

// ---- generator 1: arbitrary strings -------------------------------------------------

var hostileConstants = []string{
	"AwA=", "AQAA//8=", // complete DEFLATE streams with empty output (fixed / stored block)
	"S0zOTy0GAA==", "eJwDAAAAAAE=",
	"", " ", "=", "====", "A", "AA==", "PHg+", "PHgvPg==", // <x>, <x/>
	"<samlp:Response/>", "\x00", "\xff\xfe", strings.Repeat("A", 4096),
}

func genC09Strings(t *rapid.T) C09Case {
	c := C09Case{Cfg: rapid.IntRange(0, c09Variants-1).Draw(t, "cfg")}
	switch rapid.IntRange(0, 5).Draw(t, "strKind") {
	case 0:
		c.Kind, c.Input = "string", rapid.String().Draw(t, "s")
	case 1:
		c.Kind, c.Input = "b64-bytes", base64.StdEncoding.EncodeToString(rapid.SliceOfN(rapid.Byte(), 0, 200).Draw(t, "bytes"))
	case 2:
		c.Kind, c.Input = "b64-deflate-bytes", base64.StdEncoding.EncodeToString(h.Deflate(rapid.SliceOfN(rapid.Byte(), 0, 200).Draw(t, "bytes"), rapid.IntRange(-2, 9).Draw(t, "level")))
	case 3:
		c.Kind, c.Input = "constant", rapid.SampledFrom(hostileConstants).Draw(t, "const")
	case 4:
		c.Kind = "b64-xmlish"
		c.Input = base64.StdEncoding.EncodeToString([]byte(genXMLish(t)))
	case 5:
		c.Kind = "b64-deflate-xmlish"
		c.Input = base64.StdEncoding.EncodeToString(h.Deflate([]byte(genXMLish(t)), 6))
	}
	return c
}

var xmlFragments = []string{
	"<", ">", "</", "/>", "<?xml version=\"1.0\"?>", "<!DOCTYPE x [<!ENTITY e \"v\">]>", "&e;", "&#x0;", "&#xD;", "<![CDATA[", "]]>", "<!--", "-->",
	"samlp:Response", "saml:Assertion", "saml:EncryptedAssertion", "ds:Signature", "ds:SignedInfo", "ds:Reference", "xenc:EncryptedData", "xenc:CipherValue",
	" xmlns:samlp=\"urn:oasis:names:tc:SAML:2.0:protocol\"", " xmlns:saml=\"urn:oasis:names:tc:SAML:2.0:assertion\"", " xmlns:ds=\"http://www.w3.org/2000/09/xmldsig#\"",
	" xmlns=\"urn:oasis:names:tc:SAML:2.0:protocol\"", " ID=\"a\"", " ID='a'", " URI=\"#a\"", " URI=\"\"", " Version=\"2.0\"", " xmlns:xml=\"x\"", " xmlns:a=\"\"", " a:b:c=\"1\"",
	"x", " ", "\n", "\xef\xbb\xbf", "\x00", "é",
}

func genXMLish(t *rapid.T) string {
	n := rapid.IntRange(0, 40).Draw(t, "nFrag")
	var sb strings.Builder
	for i := 0; i < n; i++ {
		sb.WriteString(rapid.SampledFrom(xmlFragments).Draw(t, "frag"))
	}
	return sb.String()
}

// ---- generator 2: truncations / flips / splices of genuine messages ------------------------

var c09Bases = func() []string {
	var out []string
	add := func(g *h.Genuine) {
		xml, _, _, err := g.Render()
		if err != nil {
			panic(err)
		}
		out = append(out, string(xml))
	}
	sp := h.BaseSP()
	for _, mode := range []string{"response", "assertions", "both"} {
		add(gridGenuine(sp, 1, mode))
	}
	// encrypted assertion, each family of data algorithm
	for i, alg := range []string{types.MethodAES128CBC, types.MethodAES256GCM} {
		g := gridGenuine(sp, 1, "assertions")
		g.Enc = []*h.EncSpec{{DataAlg: alg, Transport: h.Transports[i], Digest: "-", To: h.CertRef{Key: "E1", Window: "wide"}, Key: make([]byte, h.KeyLen(alg)), IV: make([]byte, map[bool]int{true: 12, false: 16}[h.IsGCM(alg)])}}
		add(g)
	}
	for _, kind := range []string{"LogoutRequest", "LogoutResponse"} {
		li := &h.LogoutIssue{Model: h.PlainLogout(sp, kind), NS: h.NSStyle{P: "samlp", A: "saml"}, Sig: h.DefaultSign("T1")}
		xml, _, err := li.Render()
		if err != nil {
			panic(err)
		}
		out = append(out, string(xml))
	}
	return out
}()

func genC09Mutate(t *rapid.T) C09Case {
	c := C09Case{Kind: "mutate", Cfg: rapid.IntRange(0, c09Variants-1).Draw(t, "cfg")}
	b := []byte(c09Bases[rapid.IntRange(0, len(c09Bases)-1).Draw(t, "base")])
	nm := rapid.IntRange(1, 3).Draw(t, "nMut")
	for i := 0; i < nm && len(b) > 0; i++ {
		off := rapid.IntRange(0, len(b)-1).Draw(t, "offset")
		switch rapid.IntRange(0, 5).Draw(t, "mut") {
		case 0:
			b = b[:off] // truncate
		case 1:
			b[off] ^= byte(1 << rapid.IntRange(0, 7).Draw(t, "bit"))
		case 2:
			b = append(b[:off:off], b[off+1:]...) // delete
		case 3:
			ins := rapid.SampledFrom(xmlFragments).Draw(t, "ins")
			b = append(b[:off:off], append([]byte(ins), b[off:]...)...)
		case 4:
			b[off] = rapid.Byte().Draw(t, "byte")
		case 5: // duplicate a span
			end := off + rapid.IntRange(0, 200).Draw(t, "span")
			if end > len(b) {
				end = len(b)
			}
			b = append(b[:end:end], append(append([]byte{}, b[off:end]...), b[end:]...)...)
		}
	}
	if rapid.IntRange(0, 3).Draw(t, "deflate") == 0 {
		b = h.Deflate(b, 6)
	}
	c.Input = base64.StdEncoding.EncodeToString(b)
	return c
}

// ---- generator 2b: tree-level deletions / blanking on genuine messages (reaches missing-element paths) ----

func genC09Tree(t *rapid.T) C09Case {
	c := C09Case{Kind: "tree-mutate", Cfg: rapid.IntRange(0, c09Variants-1).Draw(t, "cfg")}
	doc := etree.NewDocument()
	if err := doc.ReadFromString(c09Bases[rapid.IntRange(0, len(c09Bases)-1).Draw(t, "base")]); err != nil {
		t.Fatalf("harness: %v", err)
	}
	root := doc.Root()
	if rapid.Bool().Draw(t, "stripSignatures") {
		// without signatures the profile / unmarshal code is reached under skip and unsigned paths
		for _, e := range root.FindElements("//Signature") {
			if e.Parent() != nil {
				e.Parent().RemoveChild(e)
			}
		}
	}
	n := rapid.IntRange(1, 4).Draw(t, "nMut")
	for i := 0; i < n; i++ {
		var els []*etree.Element
		var walk func(e *etree.Element)
		walk = func(e *etree.Element) {
			els = append(els, e)
			for _, ch := range e.ChildElements() {
				walk(ch)
			}
		}
		walk(root)
		e := els[rapid.IntRange(0, len(els)-1).Draw(t, "el")]
		switch rapid.IntRange(0, 5).Draw(t, "treeMut") {
		case 0:
			if e.Parent() != nil && e != root {
				e.Parent().RemoveChild(e)
			}
		case 1:
			if len(e.Attr) > 0 {
				k := rapid.IntRange(0, len(e.Attr)-1).Draw(t, "attr")
				e.Attr = append(e.Attr[:k:k], e.Attr[k+1:]...)
			}
		case 2:
			if len(e.Attr) > 0 {
				e.Attr[rapid.IntRange(0, len(e.Attr)-1).Draw(t, "attr")].Value = rapid.SampledFrom([]string{"", " ", "x", "2.0", "-1", "99999999999999999999"}).Draw(t, "attrV")
			}
		case 3:
			for len(e.Child) > 0 {
				e.RemoveChildAt(0)
			}
		case 4:
			if e.Parent() != nil && e != root {
				e.Parent().InsertChildAt(e.Index(), e.Copy())
			}
		case 5:
			e.SetText(rapid.SampledFrom([]string{"", "x", "AAAA", "!!"}).Draw(t, "text"))
		}
	}
	s, _ := doc.WriteToString()
	c.Input = base64.StdEncoding.EncodeToString([]byte(s))
	return c
}

// ---- generator 2c: deep / wide / attribute-flood documents ------------------------------------------

func genC09Shape(t *rapid.T) C09Case {
	c := C09Case{Kind: "shape", Cfg: rapid.SampledFrom([]int{1, 3, 5}).Draw(t, "cfg")}
	maxN := 800
	if h.Thorough() {
		maxN = 20000
	}
	// most cases are small (they explore the vocabulary x shape product); one in eight is large
	n := rapid.IntRange(1, 60).Draw(t, "nSmall")
	if rapid.IntRange(0, 7).Draw(t, "large") == 0 {
		n = rapid.IntRange(1, maxN).Draw(t, "n")
	}
	vocab := []string{"samlp:Response", "saml:Assertion", "saml:EncryptedAssertion", "ds:Signature", "ds:SignedInfo", "ds:Reference", "ds:Transforms", "saml:Advice", "samlp:Extensions", "xenc:EncryptedData", "x"}
	tag := rapid.SampledFrom(vocab).Draw(t, "tag")
	decl := ` xmlns:samlp="urn:oasis:names:tc:SAML:2.0:protocol" xmlns:saml="urn:oasis:names:tc:SAML:2.0:assertion" xmlns:ds="http://www.w3.org/2000/09/xmldsig#" xmlns:xenc="http://www.w3.org/2001/04/xmlenc#"`
	var sb strings.Builder
	root := rapid.SampledFrom([]string{"samlp:Response", "samlp:LogoutRequest", "samlp:LogoutResponse"}).Draw(t, "root")
	sb.WriteString("<" + root + decl + ` ID="r" Version="2.0">`)
	switch rapid.SampledFrom([]string{"deep", "wide", "attrs", "nsdecls", "longtext", "deep-sigs"}).Draw(t, "shape") {
	case "deep":
		c.Stage = "deep"
		sb.WriteString(strings.Repeat("<"+tag+">", n) + strings.Repeat("</"+tag+">", n))
	case "wide":
		c.Stage = "wide"
		sb.WriteString(strings.Repeat("<"+tag+"/>", n))
	case "attrs":
		c.Stage = "attrs"
		sb.WriteString("<" + tag)
		for i := 0; i < n; i++ {
			fmt.Fprintf(&sb, " a%d=\"v\"", i)
		}
		sb.WriteString("/>")
	case "nsdecls":
		c.Stage = "nsdecls"
		for i := 0; i < n%500+1; i++ {
			fmt.Fprintf(&sb, "<p%d:e xmlns:p%d=\"urn:%d\">", i, i, i)
		}
		for i := n % 500; i >= 0; i-- {
			fmt.Fprintf(&sb, "</p%d:e>", i)
		}
	case "longtext":
		c.Stage = "longtext"
		sb.WriteString("<saml:Issuer>" + strings.Repeat("A", n*20) + "</saml:Issuer>")
	case "deep-sigs":
		c.Stage = "deep-sigs"
		k := n%300 + 1
		sb.WriteString(strings.Repeat(`<ds:Signature><ds:SignedInfo><ds:CanonicalizationMethod Algorithm="http://www.w3.org/2001/10/xml-exc-c14n#"/><ds:Reference URI="#zz"/></ds:SignedInfo><ds:SignatureValue/>`, k) + strings.Repeat("</ds:Signature>", k))
	}
	sb.WriteString("</" + root + ">")
	c.Input = base64.StdEncoding.EncodeToString([]byte(sb.String()))
	return c
}

func checkC09Shape(c C09Case) h.Outcome {
	meta := c
	meta.Input = fmt.Sprintf("(%d bytes, regenerate from kind/stage)", len(c.Input))
	h.Crumb("C09.shape", c)
	o := checkC09(c)
	h.ClearCrumb()
	return o
}

// ---- generator 3: ciphertext explorer -------------------------------------------------------

type C09Cipher struct {
	Cfg       int       `json:"cfg"`
	Enc       h.EncSpec `json:"enc"`
	Shape     string    `json:"shape"`
	Signed    bool      `json:"signed"` // put the EncryptedAssertion in a Response signed by a trusted key
	Input     string    `json:"input"`
	DirectAPI bool      `json:"-"`
}

var dataAlgIDs = append(append([]string{}, h.DataAlgs...), types.MethodTripleDESCBC, "urn:unknown:alg", "")

func genC09Cipher(t *rapid.T) C09Cipher {
	c := C09Cipher{Cfg: rapid.SampledFrom([]int{1, 2, 3, 6, 1, 2, 3, 6, 8, 9, 12, 13, 14, 15, 16, 17}).Draw(t, "cfg"), Signed: rapid.IntRange(0, 3).Draw(t, "signed") == 0}
	to := h.CertRef{Key: "E1", Window: "wide"}
	e := h.EncSpec{To: to, Digest: rapid.SampledFrom(append(append([]string{}, h.DigestChoices...), "urn:unknown:digest",
		// digest identifiers of XML-Enc 1.1 / XML-DSig / RFC 6931 that the library does not export: hash functions
		// that may be known by name but not linked into the binary
		"http://www.w3.org/2001/04/xmlenc#ripemd160", "http://www.w3.org/2001/04/xmldsig-more#sha384", "http://www.w3.org/2001/04/xmldsig-more#sha224",
		"http://www.w3.org/2001/04/xmldsig-more#md5", "http://www.w3.org/2007/05/xmldsig-more#sha3-256", "http://www.w3.org/2007/05/xmldsig-more#sha3-512",
		"http://www.w3.org/2007/05/xmldsig-more#whirlpool", "http://www.w3.org/2000/09/xmldsig#sha1", "http://www.w3.org/2001/04/xmlenc#sha256", "http://www.w3.org/2001/04/xmlenc#sha512")).Draw(t, "digest")}
	e.DataAlg = rapid.SampledFrom(dataAlgIDs).Draw(t, "dataAlg")
	e.Transport = rapid.SampledFrom(append(append([]string{}, h.Transports...), "urn:unknown:transport", "")).Draw(t, "transport")
	klen := rapid.SampledFrom([]int{16, 24, 32, 16, 24, 32, 0, 1, 15, 33}).Draw(t, "keyLen")
	e.Key = rapid.SliceOfN(rapid.Byte(), klen, klen).Draw(t, "cek")
	e.Detached = rapid.Bool().Draw(t, "detached")
	e.UseRawCipher = true
	c.Shape = rapid.SampledFrom([]string{"random", "zeros", "valid-truncated", "bad-pad", "pad-then-zeros", "valid", "valid-hostile-plaintext", "valid-hostile-plaintext", "empty", "one-block", "short"}).Draw(t, "shape")
	plain := []byte("<saml:Assertion xmlns:saml=\"urn:oasis:names:tc:SAML:2.0:assertion\" ID=\"_x\" Version=\"2.0\"></saml:Assertion>")
	validKey := klen == 16 || klen == 24 || klen == 32
	mkValid := func() []byte {
		if !validKey {
			return nil
		}
		v := e
		v.UseRawCipher = false
		if h.IsGCM(v.DataAlg) {
			v.IV = make([]byte, 12)
		} else {
			v.IV = make([]byte, 16)
		}
		out, err := v.EncryptData(plain)
		if err != nil {
			return nil
		}
		return out
	}
	switch c.Shape {
	case "random":
		e.RawCipher = rapid.SliceOfN(rapid.Byte(), 0, 80).Draw(t, "cipher")
	case "zeros":
		e.RawCipher = make([]byte, rapid.IntRange(0, 80).Draw(t, "zlen"))
	case "valid", "valid-truncated":
		e.RawCipher = mkValid()
		if c.Shape == "valid-truncated" && len(e.RawCipher) > 0 {
			e.RawCipher = e.RawCipher[:rapid.IntRange(0, len(e.RawCipher)-1).Draw(t, "cut")]
		}
	case "valid-hostile-plaintext":
		// a well-formed encryption (valid key wrap, valid tag / padding) of a plaintext that is not an assertion
		if validKey {
			v := e
			v.UseRawCipher = false
			if v.DataAlg == "" || v.DataAlg == "urn:unknown:alg" || v.DataAlg == types.MethodTripleDESCBC {
				v.DataAlg = []string{types.MethodAES128GCM, types.MethodAES128CBC, types.MethodAES256GCM}[len(v.Key)%3]
				if h.KeyLen(v.DataAlg) != len(v.Key) {
					v.DataAlg = map[int]string{16: types.MethodAES128GCM, 24: types.MethodAES192GCM, 32: types.MethodAES256CBC}[len(v.Key)]
				}
				e.DataAlg = v.DataAlg
			}
			if h.IsGCM(v.DataAlg) {
				v.IV = make([]byte, 12)
			} else {
				v.IV = make([]byte, 16)
			}
			pt := rapid.SampledFrom([][]byte{{}, {0x03, 0x00}, {0x01, 0x00, 0x00, 0xff, 0xff}, []byte("garbage"), []byte("<"), []byte("<a>"), []byte("<?xml version=\"1.0\"?>"), []byte("<!-- only a comment -->"),
				h.Deflate([]byte("not xml"), 6), h.Deflate([]byte{}, 0), h.Deflate([]byte("<x/>"), 9), []byte("\xef\xbb\xbf"), []byte(" "), []byte("<x/><y/>"), []byte("<saml:Assertion/>"), h.Deflate(h.Deflate([]byte("<x/>"), 6), 6)}).Draw(t, "hostilePlain")
			if out, err := v.EncryptData(pt); err == nil {
				e.RawCipher = out
			}
		}
	case "bad-pad":
		// CBC plaintext whose final (pad-length) byte is hostile
		if validKey {
			v := e
			v.UseRawCipher = false
			v.IV = make([]byte, 16)
			v.DataAlg = types.MethodAES128CBC
			pad := rapid.SampledFrom([]byte{0, 1, 16, 17, 255, 0x80}).Draw(t, "padByte")
			body := rapid.SliceOfN(rapid.Byte(), 0, 40).Draw(t, "body")
			if rapid.Bool().Draw(t, "zeroBody") {
				body = make([]byte, len(body))
			}
			raw := append(append([]byte{}, body...), make([]byte, (16-(len(body)+1)%16)%16)...)
			raw = append(raw, pad)
			if out, err := rawCBC(v.Key, v.IV, raw); err == nil {
				e.RawCipher = out
			}
		}
	case "pad-then-zeros":
		// CBC plaintext: a few bytes, one pad-like byte, then only zero bytes up to the block boundary
		if validKey {
			v := e
			v.UseRawCipher = false
			v.IV = make([]byte, 16)
			if h.IsGCM(v.DataAlg) || v.DataAlg == "" || v.DataAlg == "urn:unknown:alg" {
				v.DataAlg = types.MethodAES256CBC
				if len(v.Key) != 32 {
					v.DataAlg = types.MethodAES128CBC
				}
				e.DataAlg = v.DataAlg
			}
			prefix := rapid.SliceOfN(rapid.Byte(), 0, 20).Draw(t, "prefix")
			raw := append(append([]byte{}, prefix...), rapid.SampledFrom([]byte{1, 2, 3, 8, 15, 16, 17, 32, 255}).Draw(t, "padLike"))
			raw = append(raw, make([]byte, (16-len(raw)%16)%16+16*rapid.IntRange(0, 1).Draw(t, "extraZeroBlock"))...)
			if len(v.Key) == 16 || len(v.Key) == 24 || len(v.Key) == 32 {
				if out, err := rawCBC(v.Key, v.IV, raw); err == nil {
					e.RawCipher = out
				}
			}
		}
	case "empty":
		e.RawCipher = nil
	case "one-block":
		e.RawCipher = rapid.SliceOfN(rapid.Byte(), 16, 16).Draw(t, "block")
	case "short":
		e.RawCipher = rapid.SliceOfN(rapid.Byte(), 1, 15).Draw(t, "short")
	}
	switch rapid.IntRange(0, 11).Draw(t, "structural") {
	case 0:
		e.NoMethod = true
	case 1:
		e.NoCipherData = true
	case 2:
		e.NoKey = true
	case 3:
		e.UseKeyRaw, e.KeyCipherRaw = true, rapid.SampledFrom([]string{"", "AAAA", "!!!", "\n", "\r\n", "=", base64.StdEncoding.EncodeToString(make([]byte, 256)), base64.StdEncoding.EncodeToString(make([]byte, 255)), base64.StdEncoding.EncodeToString(make([]byte, 257))}).Draw(t, "keyCipher")
	case 4:
		// base64.StdEncoding skips CR / LF: text made only of those decodes, without error, to zero bytes
		e.RecipRaw = rapid.SampledFrom([]string{"!!!not-base64", "AAAA", " ", "\n", "\r\n", "\n\n\n", "\t", "=", "====", "A", "AA==", "\u00a0", "MA==", "MIIB"}).Draw(t, "recipRaw")
	}
	if !validKey && !e.UseKeyRaw {
		// RSA wrapping of a 0-byte key with PKCS#1 v1.5 is fine; OAEP too. keep it.
	}
	c.Enc = e
	// assemble the message
	sp := c09Config(c.Cfg)
	g := gridGenuine(sp, 1, "none")
	root, err := g.Tree()
	if err != nil {
		t.Fatalf("harness: %v", err)
	}
	ea, err := e.EncryptElement(plain, g.NS)
	if err != nil {
		t.Fatalf("harness: encrypt: %v", err)
	}
	a := h.AssertionElements(root)[0]
	idx := a.Index()
	root.RemoveChildAt(idx)
	root.InsertChildAt(idx, ea)
	if c.Signed {
		if err := h.SignInPlace(root, h.DefaultSign("T1")); err != nil {
			t.Fatalf("harness: %v", err)
		}
	}
	c.Input = h.Encode(h.Serialize(root, h.Layout{}), h.Presentation{})
	return c
}

func checkC09Cipher(c C09Cipher) h.Outcome {
	o := h.Outcome{NonTrivial: true, Classes: []string{"gen:cipher", "shape:" + c.Shape, "alg:" + shortAlg(c.Enc.DataAlg), "transport:" + shortAlg(c.Enc.Transport),
		fmt.Sprintf("keylen:%d", len(c.Enc.Key)), fmt.Sprintf("cipherlen:%d", len(c.Enc.RawCipher)), fmt.Sprintf("signed:%v", c.Signed)}}
	v, stages := totalityWith(func() *saml2.SAMLServiceProvider { return c09Build(c.Cfg) }, c.Input)
	o.Classes = append(o.Classes, stages...)
	if v != nil {
		o.Violation = v
		return o
	}
	// the decryption routines directly, on the struct the library itself would build
	o.Violation = directDecrypt(c.Input)
	return o
}

// directDecrypt unmarshals the EncryptedAssertion of the document and calls the exported decryption routines.
func directDecrypt(encoded string) *h.Violation {
	raw, err := base64.StdEncoding.DecodeString(encoded)
	if err != nil {
		return nil
	}
	resp := &types.Response{}
	if err := xmlUnmarshal(raw, resp); err != nil || len(resp.EncryptedAssertions) == 0 {
		return nil
	}
	ea := resp.EncryptedAssertions[0]
	k := h.K("E1")
	certs := []*tls.Certificate{
		{Certificate: [][]byte{k.DER["wide"]}, PrivateKey: k.Signer},
		{Certificate: nil, PrivateKey: k.Signer},
		{Certificate: [][]byte{k.DER["wide"]}, PrivateKey: nil},
		{Certificate: [][]byte{k.DER["wide"]}, PrivateKey: h.K("T3").Signer}, // non-RSA key
	}
	for i, cert := range certs {
		var pt []byte
		var err error
		if pv := h.Guard(func() { pt, err = ea.DecryptBytes(cert) }); pv != nil {
			pv.Detail = fmt.Sprintf("DecryptBytes(cert variant %d): %s", i, pv.Detail)
			return pv
		}
		if err != nil && pt != nil {
			return h.V("result-xor-error/DecryptBytes", "DecryptBytes returned both plaintext and error %v", err)
		}
		var as *types.Assertion
		if pv := h.Guard(func() { as, err = ea.Decrypt(cert) }); pv != nil {
			pv.Detail = fmt.Sprintf("Decrypt(cert variant %d): %s", i, pv.Detail)
			return pv
		}
		if (as == nil) == (err == nil) {
			return h.V("result-xor-error/Decrypt", "Decrypt returned assertion nil=%v with err=%v", as == nil, err)
		}
		for _, ek := range []*types.EncryptedKey{&ea.EncryptedKey, &ea.DetEncryptedKey} {
			var blk interface{}
			if pv := h.Guard(func() {
				b, e := ek.DecryptSymmetricKey(cert)
				err = e
				if b != nil {
					blk = b
				}
			}); pv != nil {
				pv.Detail = fmt.Sprintf("DecryptSymmetricKey(cert variant %d): %s", i, pv.Detail)
				return pv
			}
			if (blk == nil) == (err == nil) {
				return h.V("result-xor-error/DecryptSymmetricKey", "DecryptSymmetricKey returned block nil=%v with err=%v", blk == nil, err)
			}
		}
	}
	return nil
}

// C09Seq: ONE long-lived service provider is handed a sequence of hostile inputs on all entry points; state a
// failed call leaves behind (caches, half-initialised fields) must not make a later call panic.
type C09Seq struct {
	Cfg    int      `json:"cfg"`
	Inputs []string `json:"inputs"`
	Kinds  []string `json:"kinds"`
}

func genC09Seq(t *rapid.T) C09Seq {
	q := C09Seq{Cfg: rapid.IntRange(0, c09Variants-1).Draw(t, "cfg")}
	if rapid.Bool().Draw(t, "oddCertConfig") {
		q.Cfg = rapid.IntRange(8, c09Variants-1).Draw(t, "cfgOdd")
	}
	n := rapid.IntRange(1, 4).Draw(t, "inputs")
	for i := 0; i < n; i++ {
		switch rapid.IntRange(0, 4).Draw(t, "source") {
		case 0:
			c := genC09Mutate(t)
			q.Inputs, q.Kinds = append(q.Inputs, c.Input), append(q.Kinds, "mutate")
		case 1:
			c := genC09Tree(t)
			q.Inputs, q.Kinds = append(q.Inputs, c.Input), append(q.Kinds, "tree")
		case 2:
			c := genC09Strings(t)
			q.Inputs, q.Kinds = append(q.Inputs, c.Input), append(q.Kinds, "strings")
		default: // (mostly) well-formed EncryptedAssertion in an unsigned or signed Response
			c := genC09Cipher(t)
			q.Inputs, q.Kinds = append(q.Inputs, c.Input), append(q.Kinds, "cipher:"+c.Shape)
		}
	}
	return q
}

func checkC09Seq(q C09Seq) h.Outcome {
	o := h.Outcome{NonTrivial: len(q.Inputs) > 1 || q.Cfg >= 8, Classes: []string{"gen:seq", fmt.Sprintf("cfg:%d", q.Cfg%c09Variants), fmt.Sprintf("inputs:%d", len(q.Inputs))}}
	sp := c09Build(q.Cfg)
	for round := 0; round < 2; round++ { // twice: the second pass meets whatever the first left behind
		for i, in := range q.Inputs {
			v, stages := totalityWith(func() *saml2.SAMLServiceProvider { return sp }, in)
			if round == 0 {
				o.Classes = append(o.Classes, "src:"+q.Kinds[i])
				o.Classes = append(o.Classes, stages...)
			}
			if v != nil {
				v.Sig = "reused-sp/" + v.Sig
				v.Detail = fmt.Sprintf("input %d (pass %d) on a long-lived service provider (configuration %d): %s", i+1, round+1, q.Cfg, v.Detail)
				o.Violation = v
				return o
			}
		}
	}
	o.Classes = dedup(o.Classes)
	return o
}

func TestC09_PSeq(t *testing.T) { h.RunProp(t, "C09.seq", genC09Seq, checkC09Seq) }

func TestC09_PStrings(t *testing.T) { h.RunProp(t, "C09", genC09Strings, checkC09) }
func TestC09_PMutate(t *testing.T)  { h.RunProp(t, "C09.mutate", genC09Mutate, checkC09) }
func TestC09_PCipher(t *testing.T)  { h.RunProp(t, "C09.cipher", genC09Cipher, checkC09Cipher) }
func TestC09_PTree(t *testing.T)    { h.RunProp(t, "C09.tree", genC09Tree, checkC09) }
func TestC09_PShape(t *testing.T)   { h.RunProp(t, "C09.shape", genC09Shape, checkC09Shape) }
func TestC09_Replay(t *testing.T) {
	h.RunReplay(t, "C09", checkC09)
	h.RunReplay(t, "C09.mutate", checkC09)
	h.RunReplay(t, "C09.cipher", checkC09Cipher)
	h.RunReplay(t, "C09.tree", checkC09)
	h.RunReplay(t, "C09.shape", checkC09Shape)
	h.RunReplay(t, "C09.seq", checkC09Seq)
}

// TestC09_GridOffsets: exhaustive truncation at EVERY offset (and a bit flip at every offset in the
// thorough tier) of each base message.
func TestC09_GridOffsets(t *testing.T) {
	var cases []C09Case
	for bi, base := range c09Bases {
		step := 7
		if h.Thorough() {
			step = 1
		}
		for off := 0; off <= len(base); off += step {
			cases = append(cases, C09Case{Kind: "truncate-every-offset", Cfg: 1 + bi%3, Input: base64.StdEncoding.EncodeToString([]byte(base[:off]))})
			if off < len(base) && (h.Thorough() || off%21 == 0) {
				b := []byte(base)
				b[off] ^= 0x20
				cases = append(cases, C09Case{Kind: "flip-every-offset", Cfg: 1 + bi%3, Input: base64.StdEncoding.EncodeToString(b)})
			}
		}
	}
	h.RunCases(t, "C09.mutate", cases, checkC09)
}

// hostileValues: what an attribute or a text node that code may read as a number, a time, a URI or a flag can hold.
var hostileValues = []string{"", " ", "-1", "-0", "+1", "-2147483649", "2147483648", "-9223372036854775808", "9223372036854775807", "4611686018427387904", "99999999999999999999",
	"1e9", "0x7fffffff", "NaN", "true", "1", "2.0", "urn:x", "010", "\u023a#", "\u023a\u023a\u023a\u023a\u023a#sha1", "http://www.w3.org/2000/09/xmldsig/\u023a\u023a\u023a\u023a\u023a\u023a\u023a#sha256", "\u0130\u1e9e\u01c5\ufb01#", "http://www.w3.org/2001/04/xmlenc#SHA256", "#key[1]", "#o'brien", "#a/b[c", "#//*", "#[@x='", "#\"q\"", "#a|b", "#*", "#..", "0001-01-01T00:00:00Z", "9999-12-31T23:59:59Z", "2030-03-01T12:00:00+99:99", strings.Repeat("9", 400), strings.Repeat("A", 9000)}

// richBases: unsigned messages that carry EVERY optional element and attribute the decoders know.
func richBases() []*etree.Document {
	sp := h.BaseSP()
	g := gridGenuine(sp, 2, "none")
	for i := range g.Model.Assertions {
		a := &g.Model.Assertions[i]
		a.Audiences = [][]string{{sp.Audience, "urn:other"}, {sp.Audience}}
		a.OneTimeUse, a.HasProxy, a.ProxyCount, a.ProxyAudience = true, true, h.S("2"), []string{"urn:p1", "urn:p2"}
		a.HasAuthn, a.SessionIndex = true, h.S("_session")
		a.AuthnInstant = h.S(sp.Now().UTC().Format(time.RFC3339))
		a.SessionNotOnOrAfter = h.S(sp.Now().Add(time.Hour).UTC().Format(time.RFC3339))
		a.ClassRef = h.S("urn:oasis:names:tc:SAML:2.0:ac:classes:Password")
		a.SCInResponseTo, a.NameIDFormat = h.S("_req"), h.S("urn:oasis:names:tc:SAML:1.1:nameid-format:emailAddress")
		a.Attrs = []h.AttrModel{{Name: "uid", Values: []string{"u", "v"}, FriendlyName: h.S("uid"), NameFormat: h.S("urn:oasis:names:tc:SAML:2.0:attrname-format:basic")}}
	}
	g.Model.InResponseTo, g.Model.StatusMsg, g.Model.SubCodes = h.S("_req"), h.S("fine"), []string{"urn:sub"}
	var docs []*etree.Document
	root, err := g.Tree()
	if err != nil {
		panic(err)
	}
	d := etree.NewDocument()
	d.SetRoot(root)
	docs = append(docs, d)
	for _, kind := range []string{"LogoutRequest", "LogoutResponse"} {
		li := &h.LogoutIssue{Model: h.PlainLogout(sp, kind), NS: h.NSStyle{P: "samlp", A: "saml"}}
		r, err := li.Tree()
		if err != nil {
			panic(err)
		}
		d := etree.NewDocument()
		d.SetRoot(r)
		docs = append(docs, d)
	}
	// docs[3], docs[4]: an unsigned Response whose signed assertion travels encrypted, with every optional part of
	// the encryption markup (explicit digest, named recipient; key in-line / detached)
	for _, detached := range []bool{false, true} {
		ge := gridGenuine(sp, 1, "assertions")
		rc := h.CertRef{Key: "E1", Window: "wide"}
		ge.Enc = []*h.EncSpec{{DataAlg: h.DataAlgs[3], Transport: h.Transports[1], Digest: types.MethodSHA256, Detached: detached, To: rc, Recipient: &rc, Key: make([]byte, h.KeyLen(h.DataAlgs[3])), IV: make([]byte, 16)}}
		re, err := ge.Tree()
		if err != nil {
			panic(err)
		}
		de := etree.NewDocument()
		de.SetRoot(re)
		docs = append(docs, de)
	}
	return docs
}

// TestC09_GridValues: EVERY attribute and EVERY leaf text of the rich unsigned messages receives EVERY hostile
// value, under the configurations that do not stop at the missing signature (skip) and one that does.
func TestC09_GridValues(t *testing.T) {
	var cases []C09Case
	for bi, base := range richBases() {
		var els []*etree.Element
		var walk func(e *etree.Element)
		walk = func(e *etree.Element) {
			els = append(els, e)
			for _, ch := range e.ChildElements() {
				walk(ch)
			}
		}
		walk(base.Root())
		emit := func(kind string, i int) {
			s, _ := base.WriteToString()
			cfgs := []int{3, 5, 1}[:2+i%2]
			if bi >= 3 {
				cfgs = []int{1, 2, 6}[:1+i%3] // decryption happens only with signature checking on (and a key)
			}
			for _, cfg := range cfgs {
				cases = append(cases, C09Case{Kind: kind, Cfg: cfg, Input: base64.StdEncoding.EncodeToString([]byte(s)), Stage: fmt.Sprintf("base%d", bi)})
			}
		}
		n := 0
		inEncrypted := func(e *etree.Element) bool {
			for p := e; p != nil; p = p.Parent() {
				if p.Tag == "EncryptedAssertion" {
					return true
				}
			}
			return false
		}
		for _, e := range els {
			if bi >= 3 && !inEncrypted(e) {
				continue // the envelope is that of base 0
			}
			for ai := range e.Attr {
				if e.Attr[ai].Space == "xmlns" || e.Attr[ai].Key == "xmlns" {
					continue
				}
				old := e.Attr[ai].Value
				for _, v := range hostileValues {
					e.Attr[ai].Value = v
					n++
					emit("attr-value-grid", n)
				}
				e.Attr[ai].Value = old
			}
			if len(e.ChildElements()) == 0 {
				old := e.Text()
				for _, v := range hostileValues {
					e.SetText(v)
					n++
					emit("text-value-grid", n)
				}
				e.SetText(old)
			}
		}
	}
	h.RunCases(t, "C09.tree", cases, checkC09)
}

// TestC09_GridCipher: every ciphertext length 0..80 under every data algorithm identifier, both in an
// unsigned and a signed Response.
func TestC09_GridCipher(t *testing.T) {
	var cases []C09Cipher
	for _, alg := range dataAlgIDs {
		for n := 0; n <= 80; n++ {
			for _, fill := range []byte{0x00, 0xA5} {
				e := h.EncSpec{To: h.CertRef{Key: "E1", Window: "wide"}, Digest: "-", DataAlg: alg, Transport: h.Transports[n%3], Key: make([]byte, h.KeyLen(alg)), UseRawCipher: true}
				e.RawCipher = make([]byte, n)
				for i := range e.RawCipher {
					e.RawCipher[i] = fill
				}
				c := C09Cipher{Cfg: 1, Enc: e, Shape: fmt.Sprintf("len-sweep-%02x", fill)}
				sp := c09Config(1)
				g := gridGenuine(sp, 1, "none")
				root, _ := g.Tree()
				ea, err := e.EncryptElement(nil, g.NS)
				if err != nil {
					t.Fatalf("harness: %v", err)
				}
				a := h.AssertionElements(root)[0]
				idx := a.Index()
				root.RemoveChildAt(idx)
				root.InsertChildAt(idx, ea)
				c.Input = h.Encode(h.Serialize(root, h.Layout{}), h.Presentation{})
				cases = append(cases, c)
			}
		}
	}
	// every (prefix length, pad-like byte) followed only by zero bytes, one and two blocks, both CBC algorithms
	for _, alg := range []string{types.MethodAES128CBC, types.MethodAES256CBC} {
		for plen := 0; plen < 18; plen++ {
			for _, pb := range []byte{1, 2, 7, 15, 16, 17, 200} {
				key := make([]byte, h.KeyLen(alg))
				raw := append(make([]byte, plen), pb)
				for i := 0; i < plen; i++ {
					raw[i] = 0x41
				}
				raw = append(raw, make([]byte, (16-len(raw)%16)%16)...)
				out, err := rawCBC(key, make([]byte, 16), raw)
				if err != nil {
					t.Fatalf("harness: %v", err)
				}
				e := h.EncSpec{To: h.CertRef{Key: "E1", Window: "wide"}, Digest: "-", DataAlg: alg, Transport: h.Transports[plen%3], Key: key, UseRawCipher: true, RawCipher: out}
				c := C09Cipher{Cfg: 1, Enc: e, Shape: "pad-then-zeros-sweep"}
				g := gridGenuine(c09Config(1), 1, "none")
				root, _ := g.Tree()
				ea, err := e.EncryptElement(nil, g.NS)
				if err != nil {
					t.Fatalf("harness: %v", err)
				}
				a := h.AssertionElements(root)[0]
				idx := a.Index()
				root.RemoveChildAt(idx)
				root.InsertChildAt(idx, ea)
				c.Input = h.Encode(h.Serialize(root, h.Layout{}), h.Presentation{})
				cases = append(cases, c)
			}
		}
	}
	h.RunCases(t, "C09.cipher", cases, checkC09Cipher)
}
