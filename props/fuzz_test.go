package props

import (
	"encoding/base64"
	"testing"

	saml2 "github.com/russellhaering/gosaml2"

	h "verif/harness"
)

// Native coverage-guided fuzz targets (thorough tier). Each carries the semantic oracle of its
// property, not just "does not crash". A crasher is saved by the Go tool under testdata/fuzz/<target>/.

func fuzzSeedsXML() []string {
	out := append([]string{}, c09Bases...)
	out = append(out, "<x/>", "<samlp:Response xmlns:samlp=\"urn:oasis:names:tc:SAML:2.0:protocol\"/>", "<?xml version=\"1.0\" encoding=\"ISO-8859-1\"?><a/>", "<!DOCTYPE x [<!ENTITY e \"v\">]><x>&e;</x>")
	return out
}

func FuzzC09(f *testing.F) {
	for i, s := range fuzzSeedsXML() {
		f.Add(uint8(i), base64.StdEncoding.EncodeToString([]byte(s)))
		f.Add(uint8(i+3), base64.StdEncoding.EncodeToString(h.Deflate([]byte(s), 6)))
	}
	for _, s := range hostileConstants {
		f.Add(uint8(1), s)
	}
	f.Fuzz(func(t *testing.T, cfg uint8, input string) {
		if len(input) > 1<<16 {
			return
		}
		if v, _ := totalityWith(func() *saml2.SAMLServiceProvider { return c09Build(int(cfg)) }, input); v != nil {
			t.Fatalf("VIOLATION-CANDIDATE property=C09 sig=%s\n%s", v.Sig, v.Detail)
		}
	})
}

// fuzzPool is a fixed pool of genuine messages (RSA only: deterministic signatures) with its provenance.
func fuzzPool() *AttackCase {
	sp := h.BaseSP()
	sp.Store = []h.CertRef{{Key: "T1", Window: "wide"}}
	sp.Enc = h.KeyCfg{Mode: "tls", Field: h.CertRef{Key: "E1", Window: "wide"}}
	c := &AttackCase{SP: sp}
	for i, mode := range []string{"response", "assertions", "both"} {
		g := gridGenuine(sp, 1+i%2, mode)
		g.Model.ID.V += mode
		for j := range g.Model.Assertions {
			g.Model.Assertions[j].ID.V += mode
		}
		c.Pool = append(c.Pool, g)
	}
	// one signed by a key that is NOT trusted
	g := gridGenuine(sp, 1, "both")
	g.RespSig, g.AsrtSig = h.DefaultSign("T2"), []*h.SignSpec{h.DefaultSign("T2")}
	g.Model.ID.V += "untrusted"
	g.Model.Assertions[0].ID.V += "untrusted"
	g.Model.Assertions[0].NameID = h.S("untrusted-idp-user")
	c.Pool = append(c.Pool, g)
	return c
}

func FuzzC01(f *testing.F) {
	base := fuzzPool()
	for _, g := range base.Pool {
		xml, _, _, err := g.Render()
		if err != nil {
			f.Fatal(err)
		}
		f.Add(xml)
	}
	f.Fuzz(func(t *testing.T, doc []byte) {
		if len(doc) > 1<<16 {
			return
		}
		c := *base
		c.Encoded = base64.StdEncoding.EncodeToString(doc)
		o := h.Outcome{}
		if v := c.judgeSSO(&o); v != nil {
			t.Fatalf("VIOLATION-CANDIDATE property=C01 sig=%s\n%s", v.Sig, v.Detail)
		}
		if v := c.judgeLogout(&o); v != nil {
			t.Fatalf("VIOLATION-CANDIDATE property=C01 sig=%s\n%s", v.Sig, v.Detail)
		}
	})
}

func FuzzC20(f *testing.F) {
	sp := h.BaseSP()
	sp.Skip = true
	for _, s := range fuzzSeedsXML() {
		f.Add([]byte(s))
	}
	f.Fuzz(func(t *testing.T, doc []byte) {
		if len(doc) > 1<<16 {
			return
		}
		enc := base64.StdEncoding.EncodeToString(doc)
		if r, err := sp.Build().ValidateEncodedResponse(enc); err == nil {
			p, perr := saml2.DecodeUnverifiedBaseResponse(enc)
			if perr != nil {
				t.Fatalf("VIOLATION-CANDIDATE property=C20 sig=predecode-fails-on-accepted\n%v", perr)
			}
			iss := func(has bool, v string) string {
				if !has {
					return "<nil>"
				}
				return v
			}
			ri, pi := "<nil>", "<nil>"
			if r.Issuer != nil {
				ri = iss(true, r.Issuer.Value)
			}
			if p.Issuer != nil {
				pi = iss(true, p.Issuer.Value)
			}
			if r.ID != p.ID || r.InResponseTo != p.InResponseTo || r.Destination != p.Destination || r.Version != p.Version || ri != pi {
				t.Fatalf("VIOLATION-CANDIDATE property=C20 sig=predecode-differs\npre %+v\nfull ID=%q IRT=%q Dest=%q Ver=%q Issuer=%q", p, r.ID, r.InResponseTo, r.Destination, r.Version, ri)
			}
		}
		if r, err := sp.Build().ValidateEncodedLogoutResponsePOST(enc); err == nil {
			p, perr := saml2.DecodeUnverifiedLogoutResponse(enc)
			if perr != nil {
				t.Fatalf("VIOLATION-CANDIDATE property=C20 sig=predecode-fails-on-accepted/logout\n%v", perr)
			}
			if r.ID != p.ID || r.InResponseTo != p.InResponseTo || r.Destination != p.Destination || r.Version != p.Version || (r.Issuer == nil) != (p.Issuer == nil) || (r.Issuer != nil && r.Issuer.Value != p.Issuer.Value) {
				t.Fatalf("VIOLATION-CANDIDATE property=C20 sig=predecode-differs/logout")
			}
		}
	})
}
