package props

import (
	"fmt"
	dsig "github.com/russellhaering/goxmldsig"
	"reflect"
	"strings"
	"testing"
	"time"

	saml2 "github.com/russellhaering/gosaml2"
	"github.com/russellhaering/gosaml2/types"
	"pgregory.net/rapid"

	h "verif/harness"
)

// C08 — genuine IdP responses are accepted and reproduced faithfully in every layout.

type C08Case struct {
	SP       h.SPConfig `json:"sp"`
	Issue    *h.Genuine `json:"issue"` // how the message was produced (informational for replay; model is the oracle)
	Encoded  string     `json:"encoded"`
	Encoded2 string     `json:"encoded2"` // a second layout of the same signed tree
	Feat     []string   `json:"features"`
	CRValues bool       `json:"crValues"`
}

func trustedStore(t *rapid.T) ([]h.CertRef, []string) {
	// a store that contains T1,T2,T3 in generated order plus unrelated certificates; every member may sign
	all := []h.CertRef{{Key: "T1", Window: "wide"}, {Key: "T2", Window: "wide"}, {Key: "T3", Window: "wide"}, {Key: "U1", Window: "wide"}, {Key: "U2", Window: "wide"}}
	perm := rapid.Permutation(all).Draw(t, "storeOrder")
	return perm, []string{"T1", "T2", "T3"}
}

func genC08(t *rapid.T) C08Case {
	ex := func(w string) { h.CountExcluded("C08", "excluded-by-construction:"+w) }
	txt := h.TextOpts{NoCR: h.Open("C08", "cr-not-preserved"), OnExclude: ex}
	atxt := txt
	atxt.NoCDEnd = h.Open("C08", "attr-cdata-end-rejected")
	sp := h.GenSPConfig(txt, atxt).Draw(t, "sp")
	store, signers := trustedStore(t)
	sp.Store = store
	if rapid.Bool().Draw(t, "withEncKey") {
		sp.Enc = h.KeyCfg{Mode: "tls", Field: h.CertRef{Key: "E1", Window: "wide"}}
	}
	g := h.GenGenuine(sp, signers, h.ModelOpts{Text: txt, AttrText: atxt, Embedded: true}, true).Draw(t, "issue")
	if rapid.IntRange(0, 9).Draw(t, "bigGroupList") == 0 {
		// a long multi-valued attribute (group memberships): several hundred elements, still below the
		// dependency's 1000-element traversal budget
		n := rapid.IntRange(200, 700).Draw(t, "nGroups")
		vals := make([]string, n)
		for i := range vals {
			vals[i] = fmt.Sprintf("cn=group-%04d,ou=groups,dc=example,dc=com", i)
		}
		a := &g.Model.Assertions[rapid.IntRange(0, len(g.Model.Assertions)-1).Draw(t, "bigIn")]
		a.HasAttrStmt = true
		a.Attrs = append(a.Attrs, h.AttrModel{Name: "memberOf-large-list", Values: vals})
	}
	c := C08Case{SP: sp, Issue: g}
	root, err := g.Tree()
	if err != nil {
		t.Fatalf("harness: cannot issue: %v", err)
	}
	if n := len(root.FindElements("//*")); n > 940 {
		// keep genuine messages below goxmldsig's 1000-element traversal budget (documented assumption)
		for i := range g.Model.Assertions {
			for j := range g.Model.Assertions[i].Attrs {
				if at := &g.Model.Assertions[i].Attrs[j]; len(at.Values) >= 200 {
					at.Values = at.Values[:len(at.Values)-(n-940)]
				}
			}
		}
		if root, err = g.Tree(); err != nil {
			t.Fatalf("harness: cannot issue: %v", err)
		}
	}
	l := g.Layout
	l.AllowComments = g.AllowsComments()
	xml, st := h.SerializeStats(root, l)
	c.Encoded = h.Encode(xml, g.Pres)
	l2 := h.GenLayout(g.AllowsComments()).Draw(t, "layout2")
	xml2, st2 := h.SerializeStats(root, l2)
	// the second presentation also varies the base64 TEXT: line-wrapped (LF / CRLF, 76 columns), a trailing line
	// break, non-zero unused bits — what mail-style encoders and form posts make of the same bytes
	c.Encoded2 = respell(h.Encode(xml2, h.GenPresentation().Draw(t, "pres2")), rapid.SampledFrom([]string{"canonical", "canonical", "wrapped", "crlf-wrapped", "crlf-wrapped", "trailing-newline", "nonzero-pad-bits", "crlf-64", "crlf-64+final"}).Draw(t, "b64Spelling"))
	for _, s := range []h.LayoutStats{st, st2} {
		if s.Comments > 0 {
			c.Feat = append(c.Feat, "comments")
		}
		if s.CDATAs > 0 {
			c.Feat = append(c.Feat, "cdata")
		}
		if s.CharRefs > 0 {
			c.Feat = append(c.Feat, "charref")
		}
		if s.Shuffled > 0 {
			c.Feat = append(c.Feat, "attrorder")
		}
		if s.SingleQuoted > 0 {
			c.Feat = append(c.Feat, "squote")
		}
	}
	return c
}

func modelStrings(m *h.ResponseModel) []string {
	var out []string
	out = append(out, m.Issuer.V)
	for _, a := range m.Assertions {
		out = append(out, a.NameID.V, a.Issuer.V, a.SessionIndex.V)
		for _, at := range a.Attrs {
			out = append(out, at.Name, at.FriendlyName.V)
			out = append(out, at.Values...)
		}
		for _, ar := range a.Audiences {
			out = append(out, ar...)
		}
		out = append(out, a.ProxyAudience...)
	}
	return out
}

// compareResponse checks a returned Response against the model, field by field.
func compareResponse(m *h.ResponseModel, r *types.Response) string {
	if d := h.Diff(m.View(), h.ViewOfResponse(r)); d != "" {
		return "response " + d
	}
	if len(r.Assertions) != len(m.Assertions) {
		return fmt.Sprintf("assertion count: want %d got %d", len(m.Assertions), len(r.Assertions))
	}
	for i := range m.Assertions {
		if d := h.Diff(m.Assertions[i].View(), h.ViewOfAssertion(&r.Assertions[i])); d != "" {
			return fmt.Sprintf("assertion[%d] %s", i, d)
		}
	}
	return ""
}

func compareInfo(m *h.ResponseModel, info *saml2.AssertionInfo) string {
	a := &m.Assertions[0]
	av := a.View()
	if info.NameID != av.NameID {
		return fmt.Sprintf("NameID want %q got %q", av.NameID, info.NameID)
	}
	if info.SessionIndex != av.SessionIndex {
		return fmt.Sprintf("SessionIndex want %q got %q", av.SessionIndex, info.SessionIndex)
	}
	if (info.AuthnInstant != nil) != av.HasAuthnInstant || (info.AuthnInstant != nil && info.AuthnInstant.UnixNano() != av.AuthnInstant) {
		return "AuthnInstant differs"
	}
	if (info.SessionNotOnOrAfter != nil) != av.HasSessionNOOA || (info.SessionNotOnOrAfter != nil && info.SessionNotOnOrAfter.UnixNano() != av.SessionNOOA) {
		return "SessionNotOnOrAfter differs"
	}
	if len(info.Assertions) != len(m.Assertions) {
		return "AssertionInfo.Assertions length differs"
	}
	for i := range m.Assertions {
		if d := h.Diff(m.Assertions[i].View(), h.ViewOfAssertion(&info.Assertions[i])); d != "" {
			return fmt.Sprintf("info.Assertions[%d] %s", i, d)
		}
	}
	// attribute accessors: names are distinct by construction
	if len(info.Values) != len(a.Attrs) {
		return fmt.Sprintf("Values size want %d got %d", len(a.Attrs), len(info.Values))
	}
	for _, at := range a.Attrs {
		first := ""
		if len(at.Values) > 0 {
			first = at.Values[0]
		}
		if got := info.Values.Get(at.Name); got != first {
			return fmt.Sprintf("Values.Get(%q) want %q got %q", at.Name, first, got)
		}
		if got := info.Values.GetSize(at.Name); got != len(at.Values) {
			return fmt.Sprintf("Values.GetSize(%q) want %d got %d", at.Name, len(at.Values), got)
		}
		got := info.Values.GetAll(at.Name)
		if len(got) != len(at.Values) {
			return fmt.Sprintf("Values.GetAll(%q) length want %d got %d", at.Name, len(at.Values), len(got))
		}
		for i := range got {
			if got[i] != at.Values[i] {
				return fmt.Sprintf("Values.GetAll(%q)[%d] want %q got %q", at.Name, i, at.Values[i], got[i])
			}
		}
		e := info.Values[at.Name]
		if e.FriendlyName != at.FriendlyName.Str() || e.NameFormat != at.NameFormat.Str() {
			return fmt.Sprintf("Values[%q] FriendlyName/NameFormat differ", at.Name)
		}
	}
	absent := "\x00absent-name"
	if info.Values.Get(absent) != "" || info.Values.GetSize(absent) != 0 || len(info.Values.GetAll(absent)) != 0 {
		return "accessors not empty for absent name"
	}
	var nilv saml2.Values
	if nilv.Get("x") != "" || nilv.GetSize("x") != 0 || len(nilv.GetAll("x")) != 0 {
		return "accessors not empty for nil map"
	}
	return ""
}

// mismatchSig classifies a data difference by the field that differs.
func mismatchSig(d string) string {
	f := strings.Fields(d)
	for i, w := range f {
		if strings.HasSuffix(w, ":") && i > 0 {
			return "data-mismatch/" + strings.TrimSuffix(w, ":")
		}
	}
	return "data-mismatch"
}

func crSig(m *h.ResponseModel) bool {
	for _, s := range modelStrings(m) {
		if _, _, _, cr := h.TextClass(s); cr {
			return true
		}
	}
	return false
}

func checkC08(c C08Case) h.Outcome {
	o := h.Outcome{}
	m := &c.Issue.Model
	hasCR := crSig(m) || func() bool {
		_, _, _, cr := h.TextClass(c.SP.ACS + c.SP.IdPIssuer)
		return cr
	}()
	interesting := false
	for _, s := range modelStrings(m) {
		if h.Interesting(s) {
			interesting = true
		}
	}
	o.NonTrivial = interesting || len(c.Feat) > 0
	o.Classes = append(o.Classes, "placement:"+c.Issue.Placement)
	if c.Issue.RespSig != nil {
		o.Classes = append(o.Classes, "c14n:"+shortAlg(c.Issue.RespSig.C14N), "method:"+shortAlg(c.Issue.RespSig.Method))
	}
	for _, s := range c.Issue.AsrtSig {
		if s == nil {
			continue
		}
		o.Classes = append(o.Classes, "c14n:"+shortAlg(s.C14N), "method:"+shortAlg(s.Method))
		break
	}
	if len(c.Issue.Enc) > 0 {
		o.Classes = append(o.Classes, "encrypted")
	}
	for _, a := range m.Assertions {
		for _, at := range a.Attrs {
			if len(at.Values) >= 200 {
				o.Classes = append(o.Classes, "large-attribute-list")
			}
		}
	}
	if c.Issue.Pres.Deflate {
		o.Classes = append(o.Classes, "deflate")
	}
	for _, f := range c.Feat {
		o.Classes = append(o.Classes, "layout:"+f)
	}
	if hasCR {
		o.Classes = append(o.Classes, "value:CR")
	}
	if interesting {
		o.Classes = append(o.Classes, "value:interesting")
	}
	o.Classes = dedup(o.Classes)

	attrCDEnd := strings.Contains(c.SP.ACS, "]]>")
	for _, a := range m.Assertions {
		attrCDEnd = attrCDEnd || strings.Contains(a.SessionIndex.V, "]]>")
		for _, at := range a.Attrs {
			attrCDEnd = attrCDEnd || strings.Contains(at.Name+"\x00"+at.FriendlyName.V, "]]>")
		}
	}
	sig := func(base string) string {
		if attrCDEnd && strings.HasPrefix(base, "genuine-rejected") {
			return "attr-cdata-end-rejected"
		}
		return base
	}
	var results []*types.Response
	for i, enc := range []string{c.Encoded, c.Encoded2} {
		sp := c.SP.Build()
		resp, err := sp.ValidateEncodedResponse(enc)
		if err != nil {
			o.Violation = h.V(sig("genuine-rejected"), "layout %d: genuine response rejected: %v", i, err)
			return o
		}
		if d := compareResponse(m, resp); d != "" {
			o.Violation = h.V(sig(mismatchSig(d)), "layout %d: %s", i, d)
			return o
		}
		// flags: only what C04 states — a Response flag needs a signed Response; with the Response flag false
		// every assertion must be flagged, which needs individually signed assertions
		allFlagged := true
		for _, a := range resp.Assertions {
			allFlagged = allFlagged && a.SignatureValidated
		}
		switch {
		case resp.SignatureValidated && c.Issue.Placement == "assertions":
			o.Violation = h.V("flag-mismatch", "layout %d: Response.SignatureValidated=true for an unsigned Response", i)
			return o
		case !resp.SignatureValidated && (!allFlagged || c.Issue.Placement == "response"):
			o.Violation = h.V("flag-mismatch", "layout %d: Response flag false but assertion flags %v (placement %s)", i, allFlagged, c.Issue.Placement)
			return o
		}
		for k := range resp.Assertions {
			if resp.Assertions[k].SignatureValidated && c.Issue.OwnSig(k) == nil {
				o.Violation = h.V("flag-mismatch", "layout %d: assertion %d is reported signature-validated but carries no signature of its own (placement %s)", i, k, c.Issue.Placement)
				return o
			}
		}
		results = append(results, resp)
		sp2 := c.SP.Build()
		info, err := sp2.RetrieveAssertionInfo(enc)
		if err != nil {
			o.Violation = h.V(sig("genuine-rejected-info"), "layout %d: RetrieveAssertionInfo rejected: %v", i, err)
			return o
		}
		if d := compareInfo(m, info); d != "" {
			o.Violation = h.V(sig("info-"+mismatchSig(d)), "layout %d: %s", i, d)
			return o
		}
	}
	// metamorphic: two layouts of one signed tree give deep-equal results
	a, b := *results[0], *results[1]
	if !reflect.DeepEqual(stripSigDocs(a), stripSigDocs(b)) {
		o.Violation = h.V(sig("layout-dependent-result"), "two layouts of the same signed tree gave different results")
	}
	return o
}

// stripSigDocs blanks innerxml copies of Signature elements (raw text that legitimately depends on layout).
func stripSigDocs(r types.Response) types.Response {
	as := make([]types.Assertion, len(r.Assertions))
	copy(as, r.Assertions)
	for i := range as {
		as[i].Signature = nil
	}
	r.Assertions = as
	r.EncryptedAssertions = nil
	return r
}

func shortAlg(u string) string {
	for i := len(u) - 1; i >= 0; i-- {
		if u[i] == '/' || u[i] == '#' && i != len(u)-1 {
			return u[i+1:]
		}
	}
	return u
}

func dedup(in []string) []string {
	seen := map[string]bool{}
	var out []string
	for _, s := range in {
		if !seen[s] {
			seen[s] = true
			out = append(out, s)
		}
	}
	return out
}

func TestC08(t *testing.T) { h.RunProp(t, "C08", genC08, checkC08) }
func TestC08_Replay(t *testing.T) {
	h.RunReplay(t, "C08", checkC08)
	h.RunReplay(t, "C08.capture", checkC08Capture)
	h.RunReplay(t, "C08.seq", checkC08Seq)
	h.RunReplay(t, "C08.roll", checkC08Roll)
}

// C08Seq: the same service provider instance validates genuine responses before and after its certificate
// store (and clock) are replaced — key roll-over. Each genuine response must be accepted under the
// configuration in force when it arrives, and reproduce its model.
type C08Seq struct {
	Steps []C08Case `json:"steps"`
}

func genC08Seq(t *rapid.T) C08Seq {
	var q C08Seq
	n := rapid.IntRange(2, 3).Draw(t, "steps")
	first := rapid.IntRange(0, 2).Draw(t, "firstKey")
	for i := 0; i < n; i++ {
		c := genC08(t)
		// every step trusts exactly ONE IdP key, a different one each time
		key := []string{"T1", "T2", "T3"}[(i+first)%3]
		c.SP.Store = []h.CertRef{{Key: key, Window: "wide"}}
		if len(q.Steps) > 0 {
			c.SP.NowUnixNano, c.SP.NowOffset = q.Steps[0].SP.NowUnixNano, q.Steps[0].SP.NowOffset
			c.SP.ACS, c.SP.IdPIssuer, c.SP.Audience, c.SP.Enc = q.Steps[0].SP.ACS, q.Steps[0].SP.IdPIssuer, q.Steps[0].SP.Audience, q.Steps[0].SP.Enc
		}
		g := h.GenGenuine(c.SP, []string{key}, h.ModelOpts{Text: h.TextOpts{MaxLen: 3, NoCR: false}, AttrText: h.TextOpts{MaxLen: 3, NoCDEnd: true}, MaxAssert: 2}, true).Draw(t, "issue")
		_, enc, _, err := g.Render()
		if err != nil {
			t.Fatalf("harness: %v", err)
		}
		c.Issue, c.Encoded, c.Encoded2, c.Feat = g, enc, enc, nil
		q.Steps = append(q.Steps, c)
	}
	return q
}

func checkC08Seq(q C08Seq) h.Outcome {
	o := h.Outcome{NonTrivial: true, Classes: []string{fmt.Sprintf("steps:%d", len(q.Steps))}}
	sp := q.Steps[0].SP.Build()
	for i, c := range q.Steps {
		sp.IDPCertificateStore = h.Store(c.SP.Store) // the clock object stays the same
		resp, err := sp.ValidateEncodedResponse(c.Encoded)
		if err != nil {
			o.Violation = h.V("reused-sp/genuine-rejected", "step %d: a genuine response signed by the currently trusted certificate %v is rejected by a long-lived service provider: %v", i+1, c.SP.Store, err)
			return o
		}
		if d := compareResponse(&c.Issue.Model, resp); d != "" {
			o.Violation = h.V("reused-sp/"+mismatchSig(d), "step %d: %s", i+1, d)
			return o
		}
		// and the previous step's message, signed by the key that is no longer trusted, must now be refused
		if i > 0 {
			if _, err := sp.ValidateEncodedResponse(q.Steps[i-1].Encoded); err == nil {
				o.Violation = h.V("reused-sp/retired-key-still-trusted", "step %d: a response signed by the retired certificate %v is still accepted", i+1, q.Steps[i-1].SP.Store)
				return o
			}
		}
	}
	return o
}

func TestC08_PSeq(t *testing.T) { h.RunProp(t, "C08.seq", genC08Seq, checkC08Seq) }

// C08Roll: ONE service provider and ONE certificate store object for its whole life. The store lists the IdP's
// retired, current and pre-published next certificates (validity windows 2000, 2020-2040, one day of 2030, 2050)
// in generated order; the clock is moved from step to step, in any direction, and at every step the IdP signs
// with a certificate that is valid at that instant. Each of these genuine responses is accepted and reproduced.
type C08Roll struct {
	SP    h.SPConfig  `json:"sp"`
	Steps []C08RollSt `json:"steps"`
}

type C08RollSt struct {
	Cert    h.CertRef `json:"cert"`
	NowNs   int64     `json:"now"`
	Mode    string    `json:"mode"`
	N       int       `json:"assertions"`
	KeyInfo bool      `json:"keyInfo"`
	Encoded string    `json:"encoded"`
	Issue   *h.Genuine
}

func genC08Roll(t *rapid.T) C08Roll {
	q := C08Roll{SP: h.BaseSP()}
	pool := []h.CertRef{{Key: "T1", Window: "past"}, {Key: "T2", Window: "wide"}, {Key: "T3", Window: "future"}, {Key: "T1", Window: "narrow"}, {Key: "T2", Window: "past"}, {Key: "T3", Window: "wide"}, {Key: "U1", Window: "future"}}
	perm := rapid.Permutation(pool).Draw(t, "storeOrder")
	q.SP.Store = perm[:rapid.IntRange(2, len(perm)).Draw(t, "storeSize")]
	n := rapid.IntRange(2, 5).Draw(t, "steps")
	for i := 0; i < n; i++ {
		var cands []h.CertRef
		for _, c := range q.SP.Store {
			if c.Key != "U1" {
				cands = append(cands, c)
			}
		}
		if len(cands) == 0 {
			q.SP.Store = append(q.SP.Store, h.CertRef{Key: "T2", Window: "wide"})
			cands = q.SP.Store[len(q.SP.Store)-1:]
		}
		st := C08RollSt{Cert: rapid.SampledFrom(cands).Draw(t, "signer"), Mode: rapid.SampledFrom([]string{"response", "assertions", "both"}).Draw(t, "mode"), N: rapid.IntRange(1, 2).Draw(t, "n"), KeyInfo: true}
		nb, na := h.WindowBounds(st.Cert.Window)
		st.NowNs = nb.UnixNano() + rapid.Int64Range(int64(time.Hour), na.Sub(nb).Nanoseconds()-int64(time.Hour)).Draw(t, "at")
		sp := q.SP
		sp.NowUnixNano = st.NowNs
		g := gridGenuine(sp, st.N, st.Mode)
		for _, sg := range append([]*h.SignSpec{g.RespSig}, g.AsrtSig...) {
			if sg != nil {
				sg.Signer = st.Cert
				e := st.Cert
				sg.Embed = &e
				sg.Method = methodFor(st.Cert.Key, i)
			}
		}
		_, enc, _, err := g.Render()
		if err != nil {
			t.Fatalf("harness: %v", err)
		}
		st.Encoded, st.Issue = enc, g
		q.Steps = append(q.Steps, st)
	}
	return q
}

func checkC08Roll(q C08Roll) h.Outcome {
	o := h.Outcome{NonTrivial: true, Classes: []string{fmt.Sprintf("steps:%d/store:%d", len(q.Steps), len(q.SP.Store))}}
	sp := q.SP.Build() // the store object and the Clock object are created here and kept
	for i, st := range q.Steps {
		*sp.Clock = *dsig.NewFakeClockAt(time.Unix(0, st.NowNs).UTC())
		o.Classes = append(o.Classes, "signer-window:"+st.Cert.Window)
		resp, err := sp.ValidateEncodedResponse(st.Encoded)
		if err != nil {
			o.Violation = h.V("rollover/genuine-rejected", "step %d of %d: a genuine response signed with %v, which is in the store %v and valid at the clock %s, is rejected by the long-lived service provider: %v",
				i+1, len(q.Steps), st.Cert, q.SP.Store, time.Unix(0, st.NowNs).UTC().Format(time.RFC3339), err)
			return o
		}
		if d := compareResponse(&st.Issue.Model, resp); d != "" {
			o.Violation = h.V("rollover/"+mismatchSig(d), "step %d: %s", i+1, d)
			return o
		}
	}
	o.Classes = dedup(o.Classes)
	return o
}

func TestC08_PRoll(t *testing.T) { h.RunProp(t, "C08.roll", genC08Roll, checkC08Roll) }
