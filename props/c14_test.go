package props

import (
	"bytes"
	"compress/flate"
	"encoding/base64"
	"fmt"
	"io"
	"net/http/httptest"
	"net/url"
	"sort"
	"strings"
	"testing"

	"github.com/beevik/etree"
	dsig "github.com/russellhaering/goxmldsig"
	"pgregory.net/rapid"

	h "verif/harness"
)

// C14 — redirect URLs carry the exact message and a signature over exact query octets.

type KV struct{ K, V string }

type C14Case struct {
	SP       h.SPConfig `json:"sp"`
	Flow     string     `json:"flow"` // BuildAuthURL | BuildAuthURLFromDocument | BuildAuthURLRedirect | BuildLogoutURLRedirect | AuthRedirect
	Relay    string     `json:"relay"`
	DocKind  string     `json:"docKind"` // sp-built | arbitrary
	DocXML   string     `json:"docXML"`  // for arbitrary documents
	BaseURL  string     `json:"baseURL"` // scheme://host[:port]/path
	Query    []KV       `json:"query"`   // pre-existing parameters (decoded)
	Fragment string     `json:"fragment"`
}

const unreserved = "ABCDEFGHIJKLMNOPQRSTUVWXYZabcdefghijklmnopqrstuvwxyz0123456789-_.~"

// pctEncode is the harness's own encoder (everything but unreserved is %XX).
func pctEncode(s string) string {
	var sb strings.Builder
	for _, b := range []byte(s) {
		if strings.IndexByte(unreserved, b) >= 0 {
			sb.WriteByte(b)
		} else {
			fmt.Fprintf(&sb, "%%%02X", b)
		}
	}
	return sb.String()
}

// pctDecode is the harness's own query-component decoder ('+' is a space).
func pctDecode(s string) (string, error) {
	var out []byte
	for i := 0; i < len(s); i++ {
		switch s[i] {
		case '+':
			out = append(out, ' ')
		case '%':
			if i+2 >= len(s) {
				return "", fmt.Errorf("truncated escape")
			}
			var v byte
			for _, c := range []byte{s[i+1], s[i+2]} {
				v <<= 4
				switch {
				case c >= '0' && c <= '9':
					v |= c - '0'
				case c >= 'a' && c <= 'f':
					v |= c - 'a' + 10
				case c >= 'A' && c <= 'F':
					v |= c - 'A' + 10
				default:
					return "", fmt.Errorf("bad escape")
				}
			}
			out = append(out, v)
			i += 2
		default:
			out = append(out, s[i])
		}
	}
	return string(out), nil
}

func genRelay(t *rapid.T) string {
	switch rapid.IntRange(0, 6).Draw(t, "relayKind") {
	case 0:
		return ""
	case 6:
		if d := h.CodeLiterals(); len(d) > 0 {
			return d[rapid.IntRange(0, len(d)-1).Draw(t, "relayLiteral")]
		}
		return "x"
	case 1:
		return rapid.SampledFrom([]string{" ", "a b", "a+b", "a&b=c", "100%", "%41", "#frag", "?q", "é", "日本", "a\nb", "=", "&SigAlg=x", "RelayState=1&SAMLRequest=2"}).Draw(t, "relayConst")
	case 2:
		return strings.Repeat(rapid.StringMatching(`[a-z &+=%]{1,8}`).Draw(t, "relayUnit"), rapid.IntRange(1, 512).Draw(t, "relayRep"))
	}
	return h.GenText(h.TextOpts{MaxLen: 6}).Draw(t, "relay")
}

func genArbitraryDoc(t *rapid.T) string {
	doc := etree.NewDocument()
	// what stands before and after the root element belongs to the document: XML declaration, comments, processing
	// instructions (a caller that parsed a file or a template hands exactly that over)
	level := rapid.IntRange(0, 3).Draw(t, "docLevelTokens")
	if level&1 != 0 {
		doc.CreateProcInst("xml", `version="1.0" encoding="UTF-8"`)
		if rapid.Bool().Draw(t, "docLeadingComment") {
			doc.CreateComment(" issued by the portal ")
		}
	}
	root := doc.CreateElement("samlp:AuthnRequest")
	root.CreateAttr("xmlns:samlp", h.NSProtocol)
	root.CreateAttr("ID", "_"+rapid.StringMatching(`[a-f0-9]{8}`).Draw(t, "docID"))
	if rapid.IntRange(0, 2).Draw(t, "docLooksSigned") == 0 {
		// a caller-supplied document that carries its own addressing and something that looks like a signature:
		// where it is SENT is still the configured endpoint's business, not the document's
		root.CreateAttr("Destination", rapid.SampledFrom([]string{"https://elsewhere.example.net/sso", "https://attacker.example/collect?x=1", "", "javascript:alert(1)"}).Draw(t, "docDestination"))
		root.CreateAttr("AssertionConsumerServiceURL", "https://elsewhere.example.net/acs")
		is := root.CreateElement("saml:Issuer")
		is.CreateAttr("xmlns:saml", h.NSAssertion)
		is.SetText("urn:someone")
		sg := root.CreateElement("ds:Signature")
		sg.CreateAttr("xmlns:ds", h.NSDsig)
		sg.CreateElement("ds:SignedInfo")
		sg.CreateElement("ds:SignatureValue").SetText("AAAA")
	}
	n := rapid.IntRange(0, 5).Draw(t, "docKids")
	if rapid.IntRange(0, 5).Draw(t, "largeDoc") == 0 {
		// several KB: crosses the buffer sizes of writers / encoders (4096, 8192, 32768)
		n = rapid.SampledFrom([]int{60, 130, 300, 700}).Draw(t, "docKidsLarge")
	}
	for i := 0; i < n; i++ {
		e := root.CreateElement(rapid.SampledFrom([]string{"a", "b", "samlp:Extensions", "x"}).Draw(t, "tag"))
		e.SetText(h.GenText(h.TextOpts{MaxLen: 5}).Draw(t, "docText"))
		if rapid.Bool().Draw(t, "docAttr") {
			e.CreateAttr("v", h.GenText(h.TextOpts{MaxLen: 3}).Draw(t, "docAttrV"))
		}
	}
	if level&2 != 0 {
		doc.CreateComment("trailer")
		if rapid.Bool().Draw(t, "docTrailingPI") {
			doc.CreateProcInst("audit", "id=7")
		}
	}
	s, _ := doc.WriteToString()
	return s
}

func genC14(t *rapid.T) C14Case {
	oc := genOutCase(t, true)
	sp := oc.SP
	// restore plain endpoints, then draw the IdP URL for this flow
	c := C14Case{Flow: rapid.SampledFrom([]string{"BuildAuthURL", "BuildAuthURLFromDocument", "BuildAuthURLRedirect", "BuildLogoutURLRedirect", "AuthRedirect"}).Draw(t, "flow")}
	c.BaseURL = rapid.SampledFrom([]string{"https", "http"}).Draw(t, "scheme") + "://" + rapid.SampledFrom([]string{"idp.example.com", "idp.example.com:8443", "192.0.2.7", "login.example.org:80"}).Draw(t, "host") +
		rapid.SampledFrom([]string{"", "/", "/sso", "/saml2/idp/SSO.php", "/a/b/c~d_e-f.g", "/saml/tenant%2Fa/sso", "/a%41b/x%7Ey", "/p%2Bq%3Br%2Cs%40t%3Au", "/caf%C3%A9/a%20b", "/a;v=1/b", "//double//slash/", "/dot/./seg/../x"}).Draw(t, "path")
	nq := rapid.IntRange(0, 3).Draw(t, "nQuery")
	for i := 0; i < nq; i++ {
		k := rapid.SampledFrom([]string{"tenant", "idpid", "x", "spentityid", "a b", "k&k", "zz", "Sig", "DefaultRelayState", "PreferredSigAlg", "IdPSAMLRequest", "xRelayState", "ASigAlg", "1SAMLRequest", "RelayState2", "Signature2", "samlrequest"}).Draw(t, "qk")
		c.Query = append(c.Query, KV{k, rapid.OneOf(rapid.SampledFrom([]string{"", "1", "a b", "a+b", "x&y=z", "100%", "é"}), h.GenText(h.TextOpts{MaxLen: 3})).Draw(t, "qv")})
	}
	if rapid.IntRange(0, 3).Draw(t, "fragment") == 0 {
		c.Fragment = rapid.SampledFrom([]string{"top", "a-b", "x%2Fy", "a%20b"}).Draw(t, "frag")
	}
	full := c.fullURL()
	sp.IdPSSO, sp.IdPSLO = "https://unused.example/sso", "https://unused.example/slo"
	if c.Flow == "BuildLogoutURLRedirect" {
		sp.IdPSLO = full
	} else {
		sp.IdPSSO = full
	}
	c.SP = sp
	c.Relay = genRelay(t)
	c.DocKind = "sp-built"
	if c.Flow != "BuildAuthURL" && c.Flow != "AuthRedirect" && rapid.IntRange(0, 2).Draw(t, "arbitraryDoc") == 0 {
		c.DocKind, c.DocXML = "arbitrary", genArbitraryDoc(t)
	}
	if rapid.IntRange(0, 9).Draw(t, "failingSigner") == 0 {
		// whichever key signs, it cannot (HSM / KMS unavailable): an error is fine, an unsigned URL is not
		c.SP.Sig.FailSign, c.SP.Enc.FailSign = true, true
	}
	return c
}

func (c *C14Case) fullURL() string {
	u := c.BaseURL
	for i, kv := range c.Query {
		sep := "&"
		if i == 0 {
			sep = "?"
		}
		u += sep + pctEncode(kv.K) + "=" + pctEncode(kv.V)
	}
	if c.Fragment != "" {
		u += "#" + c.Fragment
	}
	return u
}

func rawInflate(b []byte) ([]byte, error) {
	return io.ReadAll(io.LimitReader(flate.NewReader(bytes.NewReader(b)), 16<<20))
}

func checkC14(c C14Case) h.Outcome {
	o := h.Outcome{}
	failSign := c.SP.Sig.FailSign || c.SP.Enc.FailSign
	needsEsc := strings.IndexFunc(c.Relay, func(r rune) bool { return strings.IndexRune(unreserved, r) < 0 }) >= 0
	o.NonTrivial = needsEsc || len(c.Query) > 0 || c.SP.SignAlg != "" || !(c.SP.Enc.Mode == "tls" && c.SP.Sig.None())
	o.Classes = []string{"flow:" + c.Flow, "doc:" + c.DocKind, fmt.Sprintf("query:%d", len(c.Query)), fmt.Sprintf("relayEmpty:%v", c.Relay == ""), fmt.Sprintf("relayNeedsEscaping:%v", needsEsc),
		fmt.Sprintf("fragment:%v", c.Fragment != ""), "enc:" + c.SP.Enc.Mode, "sig:" + c.SP.Sig.Mode, fmt.Sprintf("signRequests:%v", c.SP.SignRequests)}
	if len(c.Relay) > 1024 {
		o.Classes = append(o.Classes, "relay:long")
	}
	sp := c.SP.Build()
	var doc *etree.Document
	var err error
	switch {
	case c.DocKind == "arbitrary":
		doc = etree.NewDocument()
		if err := doc.ReadFromString(c.DocXML); err != nil {
			o.Violation = h.V("harness/doc", "%v", err)
			return o
		}
	case c.Flow == "BuildLogoutURLRedirect":
		doc, err = sp.BuildLogoutRequestDocumentNoSig("user@example.com", "_session")
	case c.Flow == "BuildAuthURLRedirect":
		doc, err = sp.BuildAuthRequestDocumentNoSig()
	case c.Flow == "BuildAuthURLFromDocument":
		doc, err = sp.BuildAuthRequestDocument()
	}
	if err != nil && failSign {
		o.Classes = append(o.Classes, "failing-signer:document-error")
		return o // a key that cannot sign may make a builder fail; it must never yield an unsigned or half-signed URL
	}
	if err != nil {
		o.Violation = h.V("build-error", "%v", err)
		return o
	}
	var got string
	wantDoc := ""
	signed := false
	switch c.Flow {
	case "BuildAuthURL":
		got, err = sp.BuildAuthURL(c.Relay)
	case "AuthRedirect":
		w := httptest.NewRecorder()
		r := httptest.NewRequest("GET", "https://sp.example.com/login", nil)
		err = sp.AuthRedirect(w, r, c.Relay)
		got = w.Header().Get("Location")
		if err == nil && w.Code != 302 {
			o.Violation = h.V("redirect-status", "AuthRedirect status %d", w.Code)
			return o
		}
	case "BuildAuthURLFromDocument":
		wantDoc, _ = doc.WriteToString()
		got, err = sp.BuildAuthURLFromDocument(c.Relay, doc)
	case "BuildAuthURLRedirect":
		wantDoc, _ = doc.WriteToString()
		got, err = sp.BuildAuthURLRedirect(c.Relay, doc)
		signed = c.SP.SignRequests
	case "BuildLogoutURLRedirect":
		wantDoc, _ = doc.WriteToString()
		got, err = sp.BuildLogoutURLRedirect(c.Relay, doc)
		signed = true
	}
	if err != nil && failSign {
		o.Classes = append(o.Classes, "failing-signer:url-error")
		return o
	}
	if err != nil {
		o.Violation = h.V("url-build-error/"+c.Flow, "%v", err)
		return o
	}
	if failSign {
		o.Classes = append(o.Classes, "failing-signer:url-returned")
	}
	o.Classes = append(o.Classes, fmt.Sprintf("querySigned:%v", signed))
	// ---- endpoint kept
	want, _ := url.Parse(c.fullURL())
	gu, err := url.Parse(got)
	if err != nil {
		o.Violation = h.V("url-unparsable", "%v", err)
		return o
	}
	// compared in ESCAPED form: "/tenant%2Fa/sso" and "/tenant/a/sso" are different resources
	if gu.Scheme != want.Scheme || gu.Host != want.Host || gu.Path != want.Path || gu.Fragment != want.Fragment || gu.EscapedPath() != want.EscapedPath() || gu.EscapedFragment() != want.EscapedFragment() {
		o.Violation = h.V("endpoint-changed", "endpoint %s://%s%s#%s became %s://%s%s#%s", want.Scheme, want.Host, want.Path, want.Fragment, gu.Scheme, gu.Host, gu.Path, gu.Fragment)
		return o
	}
	// ---- raw query, split without decoding
	type rawKV struct{ k, v string }
	var raws []rawKV
	if gu.RawQuery != "" {
		for _, part := range strings.Split(gu.RawQuery, "&") {
			k, v, _ := strings.Cut(part, "=")
			raws = append(raws, rawKV{k, v})
		}
	}
	saml := map[string][]string{}
	var others []string
	for _, kv := range raws {
		dk, e1 := pctDecode(kv.k)
		dv, e2 := pctDecode(kv.v)
		if e1 != nil || e2 != nil {
			o.Violation = h.V("query-malformed", "cannot decode %q=%q", kv.k, kv.v)
			return o
		}
		switch dk {
		case "SAMLRequest", "RelayState", "SigAlg", "Signature":
			saml[dk] = append(saml[dk], kv.v)
		default:
			others = append(others, dk+"\x00"+dv)
		}
	}
	var wantOthers []string
	for _, kv := range c.Query {
		wantOthers = append(wantOthers, kv.K+"\x00"+kv.V)
	}
	sort.Strings(others)
	sort.Strings(wantOthers)
	if strings.Join(others, "\x01") != strings.Join(wantOthers, "\x01") {
		o.Violation = h.V("existing-query-changed", "pre-existing parameters %q became %q", wantOthers, others)
		return o
	}
	if len(saml["SAMLRequest"]) != 1 {
		o.Violation = h.V("samlrequest-count", "%d SAMLRequest parameters", len(saml["SAMLRequest"]))
		return o
	}
	reqB64, _ := pctDecode(saml["SAMLRequest"][0])
	deflated, err := base64.StdEncoding.DecodeString(reqB64)
	if err != nil {
		o.Violation = h.V("samlrequest-base64", "%v", err)
		return o
	}
	xml, err := rawInflate(deflated)
	if err != nil {
		o.Violation = h.V("samlrequest-inflate", "%v", err)
		return o
	}
	if wantDoc != "" && string(xml) != wantDoc {
		o.Violation = h.V("samlrequest-differs", "SAMLRequest inflates to a document different from the one supplied")
		return o
	}
	if wantDoc == "" {
		// BuildAuthURL / AuthRedirect build their own request: it must at least be this SP's AuthnRequest
		d, perr := h.RecipientParse(xml)
		if perr != nil || d.Root().Tag != "AuthnRequest" || d.Root().SelectAttrValue("Destination", "\x00") != c.SP.IdPSSO {
			o.Violation = h.V("samlrequest-not-authnrequest", "SAMLRequest of %s is not an AuthnRequest for the configured endpoint (parse error %v)", c.Flow, perr)
			return o
		}
	}
	switch {
	case c.Relay == "" && len(saml["RelayState"]) != 0:
		o.Violation = h.V("relaystate-present-when-empty", "RelayState parameter present for an empty relay state")
		return o
	case c.Relay != "":
		if len(saml["RelayState"]) != 1 {
			o.Violation = h.V("relaystate-count", "%d RelayState parameters for a non-empty relay state", len(saml["RelayState"]))
			return o
		}
		if dv, _ := pctDecode(saml["RelayState"][0]); dv != c.Relay {
			o.Violation = h.V("relaystate-differs", "RelayState decodes to %q, given %q", dv, c.Relay)
			return o
		}
	}
	if !signed {
		if len(saml["SigAlg"]) == 0 && len(saml["Signature"]) == 0 {
			return o
		}
		// the property does not forbid a signature where none is required, but a present one must be right
		if _, ok := expectedSigner(c.SP); !ok {
			o.Violation = h.V("query-signature-without-key/"+c.Flow, "SigAlg / Signature present although the SP has no key")
			return o
		}
		o.Classes = append(o.Classes, "unrequired-query-signature")
	}
	// ---- signature over the exact octets
	if len(saml["SigAlg"]) != 1 || len(saml["Signature"]) != 1 {
		o.Violation = h.V("signature-params-count", "SigAlg x%d, Signature x%d", len(saml["SigAlg"]), len(saml["Signature"]))
		return o
	}
	signer, _ := expectedSigner(c.SP)
	ec := h.K(signer.Key).Kind == "ecdsa"
	wantAlg := c.SP.SignAlg
	if wantAlg == "" {
		wantAlg = dsig.RSASHA256SignatureMethod
		if ec {
			wantAlg = dsig.ECDSASHA256SignatureMethod
		}
	}
	alg, _ := pctDecode(saml["SigAlg"][0])
	if algFits(c.SP.SignAlg, ec) {
		if alg != wantAlg {
			o.Violation = h.V("sigalg-differs", "SigAlg %q, configured %q", alg, wantAlg)
			return o
		}
	} else {
		// misconfigured algorithm: SigAlg must still name the algorithm actually used — decided below by
		// verifying the signature under the algorithm SigAlg names
		o.Classes = append(o.Classes, "alg:misconfigured")
	}
	signedStr := "SAMLRequest=" + saml["SAMLRequest"][0]
	if c.Relay != "" {
		signedStr += "&RelayState=" + saml["RelayState"][0]
	}
	signedStr += "&SigAlg=" + saml["SigAlg"][0]
	sigB64, _ := pctDecode(saml["Signature"][0])
	sig, err := base64.StdEncoding.DecodeString(sigB64)
	if err != nil {
		o.Violation = h.V("signature-base64", "%v", err)
		return o
	}
	if err := h.VerifyDetached(signer.X509(), alg, []byte(signedStr), sig); err != nil {
		o.Violation = h.V("query-signature-invalid/"+c.Flow+"/enc:"+c.SP.Enc.Mode+"/sig:"+c.SP.Sig.Mode, "Signature does not verify with %v over the octets as they appear in the URL: %v", signer, err)
	}
	return o
}

func TestC14(t *testing.T)        { h.RunProp(t, "C14", genC14, checkC14) }
func TestC14_Replay(t *testing.T) { h.RunReplay(t, "C14", checkC14) }
