#!/usr/bin/env python3
"""Confirm a seeded change independently and run the property's checks against it.

usage: seed_verify.py <ID> <dir-with-SEED_patch.diff-and-seeded_demo_test.go> [--tier quick|thorough] [--props C01,C04]

Steps (all in a fresh scratch worktree of /repo outside /repo and /verif, removed afterwards):
 1. demo test on the unchanged tree  -> must pass
 2. apply the patch, build            -> must compile
 3. repository suite                  -> must equal the baseline (117 pass; TestSAML, TestSAMLUsingSetSPKeyStore fail)
 4. demo test with the change         -> must fail
 5. ./run.sh <ID> <tier> with VERIF_REPO=<scratch> (isolated by VERIF_RUNTAG) -> exit 1 expected
Writes /verif/seeded/<ID>/{patch.diff,<demo>,meta.json} when 1-4 hold.
"""
import json, os, re, shutil, subprocess, sys, time

ENV = dict(os.environ, GOFLAGS="-mod=mod", GOPROXY="off", GOSUMDB="off", GOTOOLCHAIN="local")
VERIF = "/verif"


def sh(cmd, cwd, env=ENV, timeout=3600):
    return subprocess.run(cmd, cwd=cwd, env=env, capture_output=True, text=True, errors="replace", timeout=timeout)


def suite(cwd):
    t = sh(["go", "test", "-vet=off", "-count=1", "-json", "./..."], cwd)
    p, fails = 0, []
    for line in t.stdout.splitlines():
        try:
            e = json.loads(line)
        except Exception:
            continue
        if e.get("Test") and e.get("Action") in ("pass", "fail") and not e["Test"].startswith("TestSeededDemo"):
            if e["Action"] == "pass":
                p += 1
            else:
                fails.append(e["Test"])
    return p, sorted(fails)


def main():
    pid, src = sys.argv[1], os.path.abspath(sys.argv[2])
    tier = "quick"
    props = [pid]
    name = pid
    args = sys.argv[3:]
    while args:
        a = args.pop(0)
        if a == "--tier":
            tier = args.pop(0)
        elif a == "--props":
            props = args.pop(0).split(",")
        elif a == "--name":
            name = args.pop(0)
    patch = os.path.join(src, "SEED_patch.diff") if os.path.exists(os.path.join(src, "SEED_patch.diff")) else os.path.join(src, "patch.diff")
    demos = [f for f in os.listdir(src) if (f.endswith("_test.go") or f.endswith("_test.go.txt")) and "seeded" in f]
    scratch = "/tmp/sv-%s" % name
    sh(["git", "-C", "/repo", "worktree", "remove", "--force", scratch], "/")
    shutil.rmtree(scratch, ignore_errors=True)
    r = sh(["git", "-C", "/repo", "worktree", "add", "--detach", scratch, "HEAD"], "/")
    if r.returncode != 0:
        print(r.stderr)
        sys.exit(2)
    res = {"id": name, "property": pid, "repo_head": sh(["git", "-C", "/repo", "rev-parse", "--short", "HEAD"], "/").stdout.strip()}
    try:
        demo_pkg = {}
        for d in demos:
            # the demo lives in the package it declares: root (saml2) or a sub-package
            txt = open(os.path.join(src, d)).read()
            m = re.search(r"^package (\w+)", txt, re.M)
            sub = {"saml2": ".", "types": "types", "uuid": "uuid", "saml2_test": "."}.get(m.group(1), ".")
            demo_pkg[d] = sub
            shutil.copy(os.path.join(src, d), os.path.join(scratch, sub, d[:-4] if d.endswith(".txt") else d))
        race = False
        if os.path.exists(os.path.join(src, "SEED_meta.txt")):
            race = "-race" in open(os.path.join(src, "SEED_meta.txt")).read()
        elif os.path.exists(os.path.join(src, "meta.json")):
            # a stored seed: the author's notes (which say whether the demonstration needs the race detector) are in meta.json
            race = "-race" in json.load(open(os.path.join(src, "meta.json"))).get("needs_to_manifest_and_author_notes", "")
        pkgs = sorted(set("./" + p if p != "." else "." for p in demo_pkg.values()))
        demo_cmd = ["go", "test", "-vet=off", "-count=1", "-run", "TestSeededDemo"] + (["-race"] if race else []) + pkgs
        a = sh(demo_cmd, scratch)
        res["demo_unchanged"] = "pass" if a.returncode == 0 else "FAIL"
        ap = sh(["git", "apply", patch], scratch)
        if ap.returncode != 0:
            res["apply"] = ap.stderr[-300:]
            print(json.dumps(res, indent=1))
            sys.exit(2)
        b = sh(["go", "build", "./..."], scratch)
        res["compiles"] = b.returncode == 0
        p, fails = suite(scratch)
        res["suite"] = "pass %d fail %s" % (p, fails)
        res["suite_same_as_baseline"] = p == 117 and fails == ["TestSAML", "TestSAMLUsingSetSPKeyStore"]
        c = sh(demo_cmd, scratch)
        res["demo_changed"] = "fail" if c.returncode != 0 else "PASS"
        for d in demo_pkg:
            os.remove(os.path.join(scratch, demo_pkg[d], d[:-4] if d.endswith(".txt") else d))
        res["checks"] = {}
        for prop in props:
            t0 = time.time()
            env = dict(ENV, VERIF_REPO=scratch, VERIF_RUNTAG="seed-" + name)
            r = sh([os.path.join(VERIF, "run.sh"), prop, tier], VERIF, env=env, timeout=7200)
            res["checks"][prop] = {"tier": tier, "exit": r.returncode, "wall_s": round(time.time() - t0, 1), "signatures": re.findall(r"signature: (.*)", r.stdout)[:5],
                                   "status": {0: "MISSED", 1: "caught", 2: "inconclusive"}.get(r.returncode, str(r.returncode))}
            if r.returncode == 2:
                res["checks"][prop]["output"] = (r.stdout + r.stderr)[-500:]
            shutil.rmtree(os.path.join(VERIF, ".work", "%s.seed-%s" % (prop, name)), ignore_errors=True)
            for fn in ("props.%s.seed-%s.test" % (prop, name), "go.%s.seed-%s.mod" % (prop, name), "go.%s.seed-%s.sum" % (prop, name)):
                try:
                    os.remove(os.path.join(VERIF, ".bin", fn))
                except OSError:
                    pass
        ok = res["demo_unchanged"] == "pass" and res["compiles"] and res["suite_same_as_baseline"] and res["demo_changed"] == "fail"
        res["confirmed"] = ok
        if ok:
            out = os.path.join(VERIF, "seeded", name)
            os.makedirs(out, exist_ok=True)
            if os.path.abspath(patch) != os.path.abspath(os.path.join(out, "patch.diff")):
                shutil.copy(patch, os.path.join(out, "patch.diff"))
            for d in demos:
                if os.path.abspath(src) != os.path.abspath(out):
                    shutil.copy(os.path.join(src, d), os.path.join(out, d if d.endswith(".txt") else d + ".txt"))  # .txt: keep it out of any go build
            needs = ""
            if os.path.exists(os.path.join(src, "SEED_meta.txt")):
                needs = open(os.path.join(src, "SEED_meta.txt")).read()
            meta_path = os.path.join(out, "meta.json")
            meta = {}
            if os.path.exists(meta_path):
                meta = json.load(open(meta_path))
            meta.update({"id": name, "breaks_property": pid, "needs_to_manifest_and_author_notes": needs or meta.get("needs_to_manifest_and_author_notes", ""),
                         "source": meta.get("source", "independent sub-agent given only the property text and a scratch worktree"),
                         "confirmed_by_me": {"against_repo_head": res["repo_head"], "demo_on_unchanged_tree": res["demo_unchanged"], "compiles": res["compiles"], "repo_suite": res["suite"],
                                             "demo_with_change": res["demo_changed"], "commands": ["git worktree add --detach <scratch> HEAD", " ".join(demo_cmd), "git apply patch.diff", "go test -vet=off -count=1 -json ./...", " ".join(demo_cmd)]},
                         "checks_run": dict(meta.get("checks_run", {}), **{k + "/" + v["tier"]: v for k, v in res["checks"].items()})})
            json.dump(meta, open(meta_path, "w"), indent=1)
        print(json.dumps(res, indent=1))
    finally:
        sh(["git", "-C", "/repo", "worktree", "remove", "--force", scratch], "/")
        shutil.rmtree(scratch, ignore_errors=True)


if __name__ == "__main__":
    main()
