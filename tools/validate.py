#!/usr/bin/env python3-vt
"""Validate MANIFEST.json and every evidence file against the schemas."""
import json, glob, sys, jsonschema
ok = True
jsonschema.validate(json.load(open('/verif/MANIFEST.json')), json.load(open('/root/.vp/MANIFEST.schema.json')))
es = json.load(open('/root/.vp/EVIDENCE.schema.json'))
for f in sorted(glob.glob('/verif/evidence/*.json')):
    e = json.load(open(f))
    try:
        jsonschema.validate(e, es)
        c = e['coverage']
        print(f.split('/')[-1], e['tier'], 'evals', c['evaluations'], 'distinct_nontrivial', c['distinct_nontrivial'], 'samples', len(c['samples']), 'viol', e.get('violations'), 'wall', round(e['wall_s'], 1))
    except Exception as ex:
        ok = False
        print('INVALID', f, str(ex)[:300])
sys.exit(0 if ok else 1)
