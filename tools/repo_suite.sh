#!/bin/sh
# Runs the repository's own suite (guard off) and prints pass/fail counts; baseline is 117 pass, 2 fail (TestSAML, TestSAMLUsingSetSPKeyStore).
cd /repo && GOFLAGS=-mod=mod GOPROXY=off GOSUMDB=off GOTOOLCHAIN=local go test -vet=off -count=1 -json ./... 2>&1 | python3 -c "
import sys,json
p=f=0;fails=[]
for l in sys.stdin:
    try: e=json.loads(l)
    except: continue
    if e.get('Test') and e.get('Action') in('pass','fail'):
        if e['Action']=='pass': p+=1
        else: f+=1; fails.append(e['Test'])
print('pass',p,'fail',f,sorted(fails))
sys.exit(0 if p==117 and sorted(fails)==['TestSAML','TestSAMLUsingSetSPKeyStore'] else 1)"
