#!/usr/bin/env python3
"""Generate MANIFEST.json from checks.json (single source of truth for the driver and the manifest)."""
import json, os
here = os.path.dirname(os.path.dirname(os.path.abspath(__file__)))
cfg = json.load(open(os.path.join(here, "checks.json")))
checks = []
for c in cfg["checks"]:
    checks.append({
        "property_id": c["id"],
        "quick_cmd": "./run.sh %s quick" % c["id"],
        "thorough_cmd": "./run.sh %s thorough" % c["id"],
        "evidence_file": "/verif/evidence/%s.json" % c["id"],
        "replay_cmd_template": "./run.sh replay %s {path}" % c["id"],
        "engine": "verifrun",
        "level_claimed": {"category": "exploration", "text": c["level_text"], "design_ref": c.get("design_ref", "DESIGN.md section 3, " + c["id"])},
        "level_note": c["level_note"],
        "technique": c["technique"],
    })
m = {
    "version": 1,
    "setup_cmd": "./setup.sh",
    "hooks": {
        "guard": "verif",
        "enable": "go test -tags verif (no hook is compiled into the repository: every anchor is reachable through the public API, so the tag guards nothing today)",
        "baseline_off_cmd": "cd /repo && GOFLAGS=-mod=mod GOPROXY=off GOSUMDB=off GOTOOLCHAIN=local go test -vet=off -count=1 ./...",
        "source_commits": [],
        "add_only": True,
    },
    "engines": [{
        "name": "verifrun", "path": "/verif/cmd/verifrun",
        "serves_properties": [c["id"] for c in cfg["checks"]],
        "kind_free_text": "driver: rebuilds /verif/props against /repo, runs replay tier + enumerated grids + pgregory.net/rapid v1.3.0 properties in shard processes (+ native go test -fuzz in the thorough tier), aggregates evidence",
    }],
    "checks": checks,
    "notes": cfg.get("notes", ""),
    "not_applicable": cfg.get("not_applicable", []),
}
json.dump(m, open(os.path.join(here, "MANIFEST.json"), "w"), indent=1)
print("wrote MANIFEST.json with", len(checks), "checks")
