#!/bin/sh
# Runs every quick check at several VERIF_SEED values (isolated by VERIF_RUNTAG so the registered evidence is
# untouched) and prints one line per run; any non-zero exit on the unchanged tree is a defect of the machinery.
cd "$(dirname "$0")/.." || exit 2
seeds="${*:-2 3 7 11}"
for s in $seeds; do
  for id in C01 C02 C03 C04 C05 C06 C07 C08 C09 C10 C11 C12 C13 C14 C15 C16 C17 C18 C19 C20; do
    out=$(VERIF_SEED=$s VERIF_RUNTAG=seed$s ./run.sh $id quick 2>&1); rc=$?
    echo "seed=$s $id exit=$rc $(echo "$out" | grep -E 'verifrun:|VIOLATION|INCONCLUSIVE' | head -2 | tr '\n' ' ')"
    rm -rf .work/$id.seed$s .bin/props.$id.seed$s.test
  done
done
