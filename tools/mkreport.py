#!/usr/bin/env python3
"""Fill the SENSITIVITY block of DESIGN.md from mutants/results.json and seeded/*/meta.json."""
import json, glob, os, re
V = '/verif'
lines = []
res = json.load(open(os.path.join(V, 'mutants', 'results.json'))) if os.path.exists(os.path.join(V, 'mutants', 'results.json')) else []
notes = {m['name']: m.get('note', '') for m in json.load(open(os.path.join(V, 'mutants', 'mutants.json')))}
lines.append('### 8.1 Deliberate mutants (quick tier, `mutants/sensitivity.py`)\n')
lines.append('| mutant | check | result | repository suite with the mutant | first signatures reported |')
lines.append('|---|---|---|---|---|')
caught = missed = 0
for r in res:
    st = r.get('status', '')
    if st == 'caught':
        caught += 1
    elif st == 'MISSED':
        missed += 1
    suite = r.get('suite', '')
    if r.get('suite_same_as_baseline') is False:
        suite += ' (the suite itself notices)'
    lines.append('| %s | %s | %s | %s | %s |' % (r['mutant'], r['property'], st + ((' — ' + notes[r['mutant']]) if st == 'MISSED' and notes.get(r['mutant']) else ''), suite, '; '.join(r.get('signatures', [])[:2])[:140]))
lines.append('\n%d runs: %d caught, %d missed.\n' % (len(res), caught, missed))
lines.append('### 8.2 Independently seeded changes (`seeded/<ID>/`, confirmed with `tools/seed_verify.py`)\n')
lines.append('| seed | breaks | what it needs to manifest (author) | confirmed | checks run -> result |')
lines.append('|---|---|---|---|---|')
for mp in sorted(glob.glob(os.path.join(V, 'seeded', '*', 'meta.json'))):
    m = json.load(open(mp))
    needs = m.get('needs', '') or ''
    if not needs:
        txt = m.get('needs_to_manifest_and_author_notes', '')
        mm = re.search(r'(?is)(needs?[^\n]*manifest[^\n]*\n?)(.*?)(\n\s*\n|\Z)', txt)
        needs = (mm.group(2) if mm else txt)[:400]
    needs = re.sub(r'\s+', ' ', needs).strip()[:330]
    c = m.get('confirmed_by_me', {})
    conf = 'demo %s -> %s; suite %s' % (c.get('demo_on_unchanged_tree'), c.get('demo_with_change'), 'same as baseline' if 'pass 117' in c.get('repo_suite', '') else c.get('repo_suite', ''))
    checks = '; '.join('%s: %s%s' % (k, v['status'], (' (' + ', '.join(v['signatures'][:2]) + ')') if v.get('signatures') else '') for k, v in sorted(m.get('checks_run', {}).items()))
    lines.append('| %s | %s | %s | %s | %s |' % (m['id'], m['breaks_property'], needs.replace('|', '/'), conf, checks.replace('|', '/')))
block = '\n'.join(lines)
p = os.path.join(V, 'DESIGN.md')
s = open(p).read()
s = re.sub(r'<!-- BEGIN SENSITIVITY -->.*?<!-- END SENSITIVITY -->', lambda _: '<!-- BEGIN SENSITIVITY -->\n' + block + '\n<!-- END SENSITIVITY -->', s, flags=re.S)
open(p, 'w').write(s)
print('report written: %d mutant runs, %d seeds' % (len(res), len(glob.glob(os.path.join(V, 'seeded', '*', 'meta.json')))))
