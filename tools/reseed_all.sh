#!/bin/sh
# Re-runs every stored seeded change (seeded/<id>/patch.diff + demonstration) against the current checks.
cd "$(dirname "$0")/.." || exit 2
for d in seeded/*/; do
  if grep -q superseded_by_fix "$d/meta.json"; then echo "$(basename "$d") superseded by a repository fix (kept for the record)"; continue; fi
  id=$(basename "$d"); prop=$(python3 -c "import json;print(json.load(open('$d/meta.json'))['breaks_property'])")
  python3 tools/seed_verify.py "$prop" "$d" --name "$id" > "/tmp/reseed-$id.json" 2>&1
  python3 -c "
import json
d=json.load(open('/tmp/reseed-$id.json')); print('$id', 'confirmed' if d.get('confirmed') else 'NOT-CONFIRMED', {k:(v['status'],v['signatures'][:1],v['wall_s']) for k,v in d.get('checks',{}).items()})"
done
