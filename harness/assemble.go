package harness

import (
	"fmt"

	"github.com/beevik/etree"
	"pgregory.net/rapid"
)

// Genuine is everything the IdP simulator decides when it issues one Response.
type Genuine struct {
	Model     ResponseModel `json:"model"`
	NS        NSStyle       `json:"ns"`
	Placement string        `json:"placement"` // "response" | "assertions" | "both" | "none"
	RespSig   *SignSpec     `json:"respSig,omitempty"`
	AsrtSig   []*SignSpec   `json:"asrtSig,omitempty"` // one per assertion when assertions are signed
	Enc       []*EncSpec    `json:"enc,omitempty"`     // one per assertion, nil entries = plaintext; empty = none
	// InheritNS: the encrypted plaintext is the assertion's serialisation AS IT STANDS in the Response — namespace
	// prefixes declared on the Response are not re-declared inside the fragment (XML-Enc 4.3.3 allows the
	// plaintext to depend on its context; the decrypted element is put back into that very context)
	InheritNS bool         `json:"inheritNS,omitempty"`
	Layout    Layout       `json:"layout"`
	Pres      Presentation `json:"pres"`
}

// AllowsComments: comments may be injected after signing iff every signature strips them.
func (g *Genuine) AllowsComments() bool {
	ok := true
	if g.SignsResponse() && g.RespSig != nil && C14NKeepsComments(g.RespSig.C14N) {
		ok = false
	}
	if g.Placement == "assertions" || g.Placement == "both" || g.Placement == "mixed" {
		for _, s := range g.AsrtSig {
			if s != nil && C14NKeepsComments(s.C14N) {
				ok = false
			}
		}
	}
	return ok
}

// Tree builds, signs and (optionally) encrypts; it returns the finished root.
func (g *Genuine) Tree() (*etree.Element, error) {
	root := BuildResponse(&g.Model, g.NS)
	if g.NS.Pretty > 0 {
		Prettify(root, 0)
	}
	asrts := AssertionElements(root)
	signA := g.Placement == "assertions" || g.Placement == "both" || g.Placement == "mixed"
	for i, a := range asrts {
		if g.Placement == "mixed" && (i >= len(g.AsrtSig) || g.AsrtSig[i] == nil) {
			// "mixed": the Response is signed and only some assertions carry a signature of their own
		} else if signA {
			if i >= len(g.AsrtSig) || g.AsrtSig[i] == nil {
				return nil, fmt.Errorf("missing assertion sign spec %d", i)
			}
			if err := SignInPlace(a, g.AsrtSig[i]); err != nil {
				return nil, fmt.Errorf("sign assertion %d: %v", i, err)
			}
		}
		if i < len(g.Enc) && g.Enc[i] != nil {
			det, err := DetachedCopy(a)
			if err != nil {
				return nil, err
			}
			plain := Serialize(det, Layout{})
			if g.InheritNS && !g.SignsResponse() {
				// only under an unsigned Response: a signed Response reaches decryption as goxmldsig's
				// exclusive-canonical copy, whose root no longer carries declarations it does not itself use, so a
				// context-dependent plaintext cannot be resolved there (see DESIGN.md section 9) — outside the domain
				plain = Serialize(a.Copy(), Layout{})
			}
			ea, err := g.Enc[i].EncryptElement(plain, g.NS)
			if err != nil {
				return nil, fmt.Errorf("encrypt assertion %d: %v", i, err)
			}
			idx := a.Index()
			root.RemoveChildAt(idx)
			root.InsertChildAt(idx, ea)
		}
	}
	if g.SignsResponse() {
		if g.RespSig == nil {
			return nil, fmt.Errorf("missing response sign spec")
		}
		if err := SignInPlace(root, g.RespSig); err != nil {
			return nil, fmt.Errorf("sign response: %v", err)
		}
	}
	return root, nil
}

// Render produces the XML bytes and the encoded (base64, maybe DEFLATE) form.
func (g *Genuine) Render() ([]byte, string, LayoutStats, error) {
	root, err := g.Tree()
	if err != nil {
		return nil, "", LayoutStats{}, err
	}
	l := g.Layout
	l.AllowComments = l.AllowComments && g.AllowsComments()
	xml, st := SerializeStats(root, l)
	return xml, Encode(xml, g.Pres), st, nil
}

// SignsResponse: the Response element itself carries a signature.
func (g *Genuine) SignsResponse() bool {
	return g.Placement == "response" || g.Placement == "both" || g.Placement == "mixed"
}

// OwnSig returns the sign spec of assertion i's own signature, or nil.
func (g *Genuine) OwnSig(i int) *SignSpec {
	if (g.Placement == "assertions" || g.Placement == "both" || g.Placement == "mixed") && i < len(g.AsrtSig) {
		return g.AsrtSig[i]
	}
	return nil
}

// GenGenuine draws a complete genuine issuance for the SP. trusted lists the
// signer keys to choose from (they must be in sp.Store for acceptance).
func GenGenuine(sp SPConfig, trusted []string, mo ModelOpts, withEnc bool) *rapid.Generator[*Genuine] {
	return rapid.Custom(func(t *rapid.T) *Genuine {
		mo.SP = sp
		g := &Genuine{Model: GenResponseModel(mo).Draw(t, "model"), NS: GenNSStyle().Draw(t, "ns")}
		g.Placement = rapid.SampledFrom([]string{"response", "assertions", "both", "response", "assertions", "both", "mixed"}).Draw(t, "placement")
		if g.Placement != "assertions" {
			g.RespSig = GenSignSpec(trusted).Draw(t, "respSig")
		}
		if g.Placement != "response" {
			for range g.Model.Assertions {
				if g.Placement == "mixed" && rapid.Bool().Draw(t, "asrtUnsigned") {
					g.AsrtSig = append(g.AsrtSig, nil)
					continue
				}
				g.AsrtSig = append(g.AsrtSig, GenSignSpec(trusted).Draw(t, "asrtSig"))
			}
		}
		if !g.SignsResponse() {
			g.Model.ExtAssertion = nil
			for i := range g.Model.Assertions {
				g.Model.Assertions[i].Advice = nil
			}
		}
		if withEnc && !sp.Enc.None() && rapid.IntRange(0, 2).Draw(t, "encrypt") == 0 {
			to, _ := sp.Enc.Effective()
			for range g.Model.Assertions {
				if rapid.IntRange(0, 3).Draw(t, "encThis") == 0 {
					g.Enc = append(g.Enc, nil)
					continue
				}
				g.Enc = append(g.Enc, GenEncSpec(to).Draw(t, "enc"))
			}
			g.InheritNS = rapid.IntRange(0, 3).Draw(t, "inheritNS") == 0
		}
		g.Layout = GenLayout(true).Draw(t, "layout")
		g.Pres = GenPresentation().Draw(t, "pres")
		return g
	})
}

// GenEncSpec draws a well-formed encryption to the given certificate.
func GenEncSpec(to CertRef) *rapid.Generator[*EncSpec] {
	return rapid.Custom(func(t *rapid.T) *EncSpec {
		e := &EncSpec{To: to}
		e.DataAlg = rapid.SampledFrom(DataAlgs).Draw(t, "dataAlg")
		e.Transport = rapid.SampledFrom(Transports).Draw(t, "transport")
		e.Digest = rapid.SampledFrom(DigestChoices).Draw(t, "digest")
		e.Detached = rapid.Bool().Draw(t, "detachedKey")
		if rapid.Bool().Draw(t, "nameRecipient") {
			r := to
			e.Recipient = &r
		}
		e.Key = rapid.SliceOfN(rapid.Byte(), KeyLen(e.DataAlg), KeyLen(e.DataAlg)).Draw(t, "cek")
		ivn := 16
		if IsGCM(e.DataAlg) {
			ivn = 12
		}
		e.IV = rapid.SliceOfN(rapid.Byte(), ivn, ivn).Draw(t, "iv")
		e.PadFill = rapid.Byte().Draw(t, "padFill")
		return e
	})
}
