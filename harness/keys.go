package harness

import (
	"crypto"
	"crypto/ecdsa"
	"crypto/rsa"
	"crypto/tls"
	"crypto/x509"
	_ "embed"
	"encoding/json"
	"fmt"
	"math/big"
	"sync"
	"time"

	dsig "github.com/russellhaering/goxmldsig"
)

//go:embed testdata/keys.json
var keysJSON []byte

// Key is one pre-generated key pair with certificates for four fixed validity
// windows (see cmd/genkeys). Nothing here depends on the wall clock.
type Key struct {
	Name   string
	Kind   string // "rsa" | "ecdsa"
	Signer crypto.Signer
	RSA    *rsa.PrivateKey   // nil for ecdsa
	EC     *ecdsa.PrivateKey // nil for rsa
	DER    map[string][]byte // window -> certificate DER
	Cert   map[string]*x509.Certificate
}

var Keys = map[string]*Key{}

// Windows are the certificate validity windows available for every key.
var Windows = []string{"wide", "past", "future", "narrow"}

// SPWindows: certificates of the SP's own RSA keys (S1, S2, E1, E2), all valid 2020-2040. Besides the plain
// "wide" one there are certificates whose DER ends in a line feed, a space or a NUL byte (cmd/addws).
var SPWindows = []string{"wide", "wide", "wide", "wide-nl", "wide-sp", "wide-nul"}

func init() {
	var raw map[string]struct {
		Kind  string            `json:"kind"`
		PKCS8 []byte            `json:"pkcs8"`
		Certs map[string][]byte `json:"certs"`
	}
	if err := json.Unmarshal(keysJSON, &raw); err != nil {
		panic(err)
	}
	for name, r := range raw {
		k := &Key{Name: name, Kind: r.Kind, DER: r.Certs, Cert: map[string]*x509.Certificate{}}
		p, err := x509.ParsePKCS8PrivateKey(r.PKCS8)
		if err != nil {
			panic(err)
		}
		switch pk := p.(type) {
		case *rsa.PrivateKey:
			k.RSA, k.Signer = pk, pk
		case *ecdsa.PrivateKey:
			k.EC, k.Signer = pk, pk
		default:
			panic("unknown key type")
		}
		for w, der := range r.Certs {
			c, err := x509.ParseCertificate(der)
			if err != nil {
				panic(err)
			}
			k.Cert[w] = c
		}
		Keys[name] = k
	}
}

// K returns the named key or panics (harness programming error).
func K(name string) *Key {
	k, ok := Keys[name]
	if !ok {
		panic("no key " + name)
	}
	return k
}

// CertRef names a certificate: key name + window.
type CertRef struct {
	Key    string `json:"key"`
	Window string `json:"window"`
}

func (c CertRef) String() string { return c.Key + "/" + c.Window }

func (c CertRef) X509() *x509.Certificate { return K(c.Key).Cert[c.Window] }
func (c CertRef) DER() []byte             { return K(c.Key).DER[c.Window] }

// Store builds an IdP certificate store from references (order and duplicates kept).
func Store(refs []CertRef) *dsig.MemoryX509CertificateStore {
	s := &dsig.MemoryX509CertificateStore{Roots: []*x509.Certificate{}}
	for _, r := range refs {
		s.Roots = append(s.Roots, r.X509())
	}
	return s
}

// DynStore is an IdP certificate store that is not a MemoryX509CertificateStore: its answer can be changed in
// place (metadata refresh) and it can fail (metadata endpoint down). Every answer is a fresh slice.
type DynStore struct {
	mu    sync.Mutex
	certs []*x509.Certificate
	err   error
	Calls int
}

func NewDynStore(refs []CertRef) *DynStore { d := &DynStore{}; d.Set(refs, nil); return d }

func (d *DynStore) Set(refs []CertRef, err error) {
	d.mu.Lock()
	defer d.mu.Unlock()
	d.certs, d.err = append([]*x509.Certificate(nil), Store(refs).Roots...), err
}

func (d *DynStore) Certificates() ([]*x509.Certificate, error) {
	d.mu.Lock()
	defer d.mu.Unlock()
	d.Calls++
	if d.err != nil {
		return nil, d.err
	}
	return append([]*x509.Certificate(nil), d.certs...), nil
}

// TLSStore returns the key as a dsig.TLSCertKeyStore (RSA keys only make sense here).
func TLSStore(c CertRef) dsig.TLSCertKeyStore {
	k := K(c.Key)
	return dsig.TLSCertKeyStore(tls.Certificate{Certificate: [][]byte{c.DER()}, PrivateKey: k.Signer})
}

// CustomStore is an X509KeyStore that is not a TLSCertKeyStore, so the library's
// generic GetKeyPair path is exercised.
type CustomStore struct {
	Key  *rsa.PrivateKey
	Cert []byte
	Err  error
}

func (c *CustomStore) GetKeyPair() (*rsa.PrivateKey, []byte, error) { return c.Key, c.Cert, c.Err }

// NewBareCustomStore is NewCustomStore with a private key assembled from its bare components (N, E, D, primes)
// — what a JWK import or a hand-built struct gives: no precomputed CRT values. A fresh key object per call, so
// that nothing one service provider does to it shows on another.
func NewBareCustomStore(c CertRef) *CustomStore {
	k := K(c.Key)
	if k.RSA == nil {
		panic("custom store needs an RSA key")
	}
	bare := &rsa.PrivateKey{PublicKey: rsa.PublicKey{N: new(big.Int).Set(k.RSA.N), E: k.RSA.E}, D: new(big.Int).Set(k.RSA.D)}
	for _, p := range k.RSA.Primes {
		bare.Primes = append(bare.Primes, new(big.Int).Set(p))
	}
	return &CustomStore{Key: bare, Cert: c.DER()}
}

func NewCustomStore(c CertRef) *CustomStore {
	k := K(c.Key)
	if k.RSA == nil {
		panic("custom store needs RSA key")
	}
	return &CustomStore{Key: k.RSA, Cert: c.DER()}
}

// WindowBounds returns NotBefore / NotAfter of a window.
func WindowBounds(w string) (time.Time, time.Time) {
	c := K("T1").Cert[w]
	if c == nil {
		panic(fmt.Sprintf("no window %q", w))
	}
	return c.NotBefore, c.NotAfter
}
