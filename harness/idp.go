package harness

import (
	"bytes"
	"compress/flate"
	"encoding/base64"
	"fmt"

	"github.com/beevik/etree"
	dsig "github.com/russellhaering/goxmldsig"
	"github.com/russellhaering/goxmldsig/etreeutils"
)

// Signature methods and canonicalisers the validator supports.
var (
	RSAMethods = []string{dsig.RSASHA1SignatureMethod, dsig.RSASHA256SignatureMethod, dsig.RSASHA384SignatureMethod, dsig.RSASHA512SignatureMethod}
	ECMethods  = []string{dsig.ECDSASHA1SignatureMethod, dsig.ECDSASHA256SignatureMethod, dsig.ECDSASHA384SignatureMethod, dsig.ECDSASHA512SignatureMethod}
	C14Ns      = []string{
		string(dsig.CanonicalXML10ExclusiveAlgorithmId),
		string(dsig.CanonicalXML10ExclusiveWithCommentsAlgorithmId),
		string(dsig.CanonicalXML11AlgorithmId),
		string(dsig.CanonicalXML11WithCommentsAlgorithmId),
		string(dsig.CanonicalXML10RecAlgorithmId),
		string(dsig.CanonicalXML10WithCommentsAlgorithmId),
	}
)

func CanonicalizerFor(id string) dsig.Canonicalizer {
	switch dsig.AlgorithmID(id) {
	case dsig.CanonicalXML10ExclusiveAlgorithmId:
		return dsig.MakeC14N10ExclusiveCanonicalizerWithPrefixList("")
	case dsig.CanonicalXML10ExclusiveWithCommentsAlgorithmId:
		return dsig.MakeC14N10ExclusiveWithCommentsCanonicalizerWithPrefixList("")
	case dsig.CanonicalXML11AlgorithmId:
		return dsig.MakeC14N11Canonicalizer()
	case dsig.CanonicalXML11WithCommentsAlgorithmId:
		return dsig.MakeC14N11WithCommentsCanonicalizer()
	case dsig.CanonicalXML10RecAlgorithmId:
		return dsig.MakeC14N10RecCanonicalizer()
	case dsig.CanonicalXML10WithCommentsAlgorithmId:
		return dsig.MakeC14N10WithCommentsCanonicalizer()
	}
	panic("unknown c14n " + id)
}

// C14NKeepsComments tells whether comments are part of the signed bytes.
func C14NKeepsComments(id string) bool {
	switch dsig.AlgorithmID(id) {
	case dsig.CanonicalXML10ExclusiveWithCommentsAlgorithmId, dsig.CanonicalXML11WithCommentsAlgorithmId, dsig.CanonicalXML10WithCommentsAlgorithmId:
		return true
	}
	return false
}

// SignSpec describes one enveloped signature made by the simulator.
type SignSpec struct {
	Signer      CertRef  `json:"signer"`          // key that signs (window irrelevant for the key itself)
	Embed       *CertRef `json:"embed,omitempty"` // certificate placed in KeyInfo; nil = no KeyInfo
	EmptyKI     bool     `json:"emptyKI,omitempty"`
	Method      string   `json:"method"`
	C14N        string   `json:"c14n"`
	Prefix      string   `json:"prefix"`
	AfterIssuer bool     `json:"afterIssuer"`
}

// DefaultSign is a plain RSA-SHA256 / exc-c14n signature by key with its wide certificate embedded.
func DefaultSign(key string) *SignSpec {
	c := CertRef{key, "wide"}
	m := dsig.RSASHA256SignatureMethod
	if K(key).Kind == "ecdsa" {
		m = dsig.ECDSASHA256SignatureMethod
	}
	return &SignSpec{Signer: c, Embed: &c, Method: m, C14N: C14Ns[0], Prefix: "ds", AfterIssuer: true}
}

// SignInPlace signs el (which may sit inside a larger tree) the way a
// conforming signer does: the signature is computed over el together with the
// namespace context it inherits, and the ds:Signature is inserted into el.
func SignInPlace(el *etree.Element, sp *SignSpec) error {
	nsctx, err := etreeutils.NSBuildParentContext(el)
	if err != nil {
		return err
	}
	detached, err := etreeutils.NSDetatch(nsctx, el)
	if err != nil {
		return err
	}
	var certs [][]byte
	if sp.Embed != nil {
		certs = [][]byte{sp.Embed.DER()}
	}
	ctx, err := dsig.NewSigningContext(K(sp.Signer.Key).Signer, certs)
	if err != nil {
		return err
	}
	if err := ctx.SetSignatureMethod(sp.Method); err != nil {
		return err
	}
	ctx.Canonicalizer = CanonicalizerFor(sp.C14N)
	ctx.Prefix = sp.Prefix
	sig, err := ctx.ConstructSignature(detached, true)
	if err != nil {
		return err
	}
	if sp.Embed == nil {
		// drop the (empty) KeyInfo unless an empty one is wanted
		for _, c := range sig.ChildElements() {
			if c.Tag == "KeyInfo" {
				if sp.EmptyKI {
					for _, cc := range c.ChildElements() {
						c.RemoveChild(cc)
					}
				} else {
					sig.RemoveChild(c)
				}
			}
		}
	}
	InsertSignature(el, sig, sp.AfterIssuer)
	return nil
}

// InsertSignature puts sig after the Issuer child (schema position) or last.
func InsertSignature(el, sig *etree.Element, afterIssuer bool) {
	if afterIssuer {
		for _, c := range el.ChildElements() {
			if c.Tag == "Issuer" {
				el.InsertChildAt(c.Index()+1, sig)
				return
			}
		}
		el.InsertChildAt(0, sig)
		return
	}
	el.AddChild(sig)
}

// DetachedCopy returns a copy of el carrying every namespace declaration in
// scope at its position (what a conforming IdP serialises before encrypting).
func DetachedCopy(el *etree.Element) (*etree.Element, error) {
	nsctx, err := etreeutils.NSBuildParentContext(el)
	if err != nil {
		return nil, err
	}
	return etreeutils.NSDetatch(nsctx, el)
}

// AssertionElements returns the direct Assertion children of a Response element
// (by local name; the builder only creates them in the assertion namespace).
func AssertionElements(root *etree.Element) []*etree.Element {
	var out []*etree.Element
	for _, c := range root.ChildElements() {
		if c.Tag == "Assertion" {
			out = append(out, c)
		}
	}
	return out
}

// Deflate compresses raw DEFLATE at the given level (-2..9).
func Deflate(b []byte, level int) []byte {
	var buf bytes.Buffer
	w, err := flate.NewWriter(&buf, level)
	if err != nil {
		panic(err)
	}
	w.Write(b)
	w.Close()
	return buf.Bytes()
}

// Presentation: how bytes are wrapped before base64.
type Presentation struct {
	Deflate bool `json:"deflate"`
	Level   int  `json:"level"`
}

func Encode(xml []byte, p Presentation) string {
	if p.Deflate {
		xml = Deflate(xml, p.Level)
	}
	return base64.StdEncoding.EncodeToString(xml)
}

// PlainSerialize writes the tree with etree's default writer.
func PlainSerialize(root *etree.Element) []byte {
	doc := etree.NewDocument()
	doc.SetRoot(root.Copy())
	b, err := doc.WriteToBytes()
	if err != nil {
		panic(fmt.Sprintf("serialize: %v", err))
	}
	return b
}

// DeflateStored encodes b as a sequence of DEFLATE *stored* blocks (RFC 1951, 3.2.4) with chosen block
// lengths and chosen values for the five ignored padding bits of each block header. Any such stream is a
// valid DEFLATE encoding of b; compressors never emit most of them, decoders must accept all of them.
func DeflateStored(b []byte, blockLens []int, pads []int) []byte {
	var out []byte
	i, k := 0, 0
	for {
		n := len(b) - i
		if k < len(blockLens) && blockLens[k] < n {
			n = blockLens[k]
		}
		if n > 65535 {
			n = 65535
		}
		final := byte(0)
		if i+n >= len(b) {
			final = 1
		}
		pad := 0
		if k < len(pads) {
			pad = pads[k] & 0x1f
		}
		out = append(out, final|byte(pad<<3), byte(n), byte(n>>8), ^byte(n), ^byte(n>>8))
		out = append(out, b[i:i+n]...)
		i += n
		k++
		if final == 1 {
			return out
		}
	}
}
