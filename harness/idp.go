package harness

import (
	"bytes"
	"compress/flate"
	"encoding/base64"
	"fmt"

	"github.com/beevik/etree"
	dsig "github.com/russellhaering/goxmldsig"
	"github.com/russellhaering/goxmldsig/etreeutils"
)

// Signature methods and canonicalisers the validator supports.
var (
	RSAMethods = []string{dsig.RSASHA1SignatureMethod, dsig.RSASHA256SignatureMethod, dsig.RSASHA384SignatureMethod, dsig.RSASHA512SignatureMethod}
	ECMethods  = []string{dsig.ECDSASHA1SignatureMethod, dsig.ECDSASHA256SignatureMethod, dsig.ECDSASHA384SignatureMethod, dsig.ECDSASHA512SignatureMethod}
	C14Ns      = []string{
		string(dsig.CanonicalXML10ExclusiveAlgorithmId),
		string(dsig.CanonicalXML10ExclusiveWithCommentsAlgorithmId),
		string(dsig.CanonicalXML11AlgorithmId),
		string(dsig.CanonicalXML11WithCommentsAlgorithmId),
		string(dsig.CanonicalXML10RecAlgorithmId),
		string(dsig.CanonicalXML10WithCommentsAlgorithmId),
	}
)

func CanonicalizerFor(id string) dsig.Canonicalizer {
	switch dsig.AlgorithmID(id) {
	case dsig.CanonicalXML10ExclusiveAlgorithmId:
		return dsig.MakeC14N10ExclusiveCanonicalizerWithPrefixList("")
	case dsig.CanonicalXML10ExclusiveWithCommentsAlgorithmId:
		return dsig.MakeC14N10ExclusiveWithCommentsCanonicalizerWithPrefixList("")
	case dsig.CanonicalXML11AlgorithmId:
		return dsig.MakeC14N11Canonicalizer()
	case dsig.CanonicalXML11WithCommentsAlgorithmId:
		return dsig.MakeC14N11WithCommentsCanonicalizer()
	case dsig.CanonicalXML10RecAlgorithmId:
		return dsig.MakeC14N10RecCanonicalizer()
	case dsig.CanonicalXML10WithCommentsAlgorithmId:
		return dsig.MakeC14N10WithCommentsCanonicalizer()
	}
	panic("unknown c14n " + id)
}

// C14NKeepsComments tells whether comments are part of the signed bytes.
func C14NKeepsComments(id string) bool {
	switch dsig.AlgorithmID(id) {
	case dsig.CanonicalXML10ExclusiveWithCommentsAlgorithmId, dsig.CanonicalXML11WithCommentsAlgorithmId, dsig.CanonicalXML10WithCommentsAlgorithmId:
		return true
	}
	return false
}

// SignSpec describes one enveloped signature made by the simulator.
type SignSpec struct {
	Signer      CertRef  `json:"signer"`          // key that signs (window irrelevant for the key itself)
	Embed       *CertRef `json:"embed,omitempty"` // certificate placed in KeyInfo; nil = no KeyInfo
	EmptyKI     bool     `json:"emptyKI,omitempty"`
	Method      string   `json:"method"`
	C14N        string   `json:"c14n"`
	Prefix      string   `json:"prefix"`
	AfterIssuer bool     `json:"afterIssuer"`
}

// DefaultSign is a plain RSA-SHA256 / exc-c14n signature by key with its wide certificate embedded.
func DefaultSign(key string) *SignSpec {
	c := CertRef{key, "wide"}
	m := dsig.RSASHA256SignatureMethod
	if K(key).Kind == "ecdsa" {
		m = dsig.ECDSASHA256SignatureMethod
	}
	return &SignSpec{Signer: c, Embed: &c, Method: m, C14N: C14Ns[0], Prefix: "ds", AfterIssuer: true}
}

// SignInPlace signs el (which may sit inside a larger tree) the way a
// conforming signer does: the signature is computed over el together with the
// namespace context it inherits, and the ds:Signature is inserted into el.
func SignInPlace(el *etree.Element, sp *SignSpec) error {
	nsctx, err := etreeutils.NSBuildParentContext(el)
	if err != nil {
		return err
	}
	detached, err := etreeutils.NSDetatch(nsctx, el)
	if err != nil {
		return err
	}
	var certs [][]byte
	if sp.Embed != nil {
		certs = [][]byte{sp.Embed.DER()}
	}
	ctx, err := dsig.NewSigningContext(K(sp.Signer.Key).Signer, certs)
	if err != nil {
		return err
	}
	if err := ctx.SetSignatureMethod(sp.Method); err != nil {
		return err
	}
	ctx.Canonicalizer = CanonicalizerFor(sp.C14N)
	ctx.Prefix = sp.Prefix
	sig, err := ctx.ConstructSignature(detached, true)
	if err != nil {
		return err
	}
	if sp.Embed == nil {
		// drop the (empty) KeyInfo unless an empty one is wanted
		for _, c := range sig.ChildElements() {
			if c.Tag == "KeyInfo" {
				if sp.EmptyKI {
					for _, cc := range c.ChildElements() {
						c.RemoveChild(cc)
					}
				} else {
					sig.RemoveChild(c)
				}
			}
		}
	}
	InsertSignature(el, sig, sp.AfterIssuer)
	return nil
}

// InsertSignature puts sig after the Issuer child (schema position) or last.
func InsertSignature(el, sig *etree.Element, afterIssuer bool) {
	if afterIssuer {
		for _, c := range el.ChildElements() {
			if c.Tag == "Issuer" {
				el.InsertChildAt(c.Index()+1, sig)
				return
			}
		}
		el.InsertChildAt(0, sig)
		return
	}
	el.AddChild(sig)
}

// DetachedCopy returns a copy of el carrying every namespace declaration in
// scope at its position (what a conforming IdP serialises before encrypting).
func DetachedCopy(el *etree.Element) (*etree.Element, error) {
	nsctx, err := etreeutils.NSBuildParentContext(el)
	if err != nil {
		return nil, err
	}
	return etreeutils.NSDetatch(nsctx, el)
}

// AssertionElements returns the direct Assertion children of a Response element
// (by local name; the builder only creates them in the assertion namespace).
func AssertionElements(root *etree.Element) []*etree.Element {
	var out []*etree.Element
	for _, c := range root.ChildElements() {
		if c.Tag == "Assertion" {
			out = append(out, c)
		}
	}
	return out
}

// Deflate compresses raw DEFLATE at the given level (-2..9).
func Deflate(b []byte, level int) []byte {
	var buf bytes.Buffer
	w, err := flate.NewWriter(&buf, level)
	if err != nil {
		panic(err)
	}
	w.Write(b)
	w.Close()
	return buf.Bytes()
}

// Presentation: how bytes are wrapped before base64.
type Presentation struct {
	Deflate bool `json:"deflate"`
	Level   int  `json:"level"`
	// Style selects a legal but unusual DEFLATE encoding (only with Deflate):
	//   ""            what compress/flate emits at Level
	//   "stored-ws"   stored blocks; the first header byte is a space (ignored padding bits set) and the low LEN
	//                 byte is '<': the stream begins like " <"
	//   "dyn-prefix"  an empty dynamic-Huffman block with HLIT = Level%8+2 first (first byte 0x14 .. 0x4C, among
	//                 them '<' for HLIT 7), an empty stored block to re-align, then the compress/flate stream
	//   "ratio"       trailing white space is added until the document is exactly r (by Level: 3,4,5,6,8,16,2,32)
	//                 times as long as its compress/flate encoding
	//   "stored-tail" the compress/flate stream followed by nothing else, but cut into stored blocks of 1 KiB
	Style string `json:"style,omitempty"`
}

// Compress applies the presentation's DEFLATE encoding (identity when Deflate is off).
func (p Presentation) Compress(xml []byte) []byte {
	if !p.Deflate {
		return xml
	}
	lvl := p.Level
	if lvl < -2 || lvl > 9 {
		lvl = 6
	}
	switch p.Style {
	case "stored-ws":
		first := 0x3c // LEN = 0x003C: header bytes 20 3C 00 C3 FF
		if len(xml) >= 0x203c {
			first = 0x203c // 20 3C 20 C3 DF: " < " then an invalid byte
		}
		return DeflateStored(xml, []int{first, 700}, []int{4, 0, 9})
	case "dyn-prefix":
		hlit := ((p.Level%8)+8)%8 + 2
		return append(EmptyDynamicBlock(hlit), Deflate(xml, 6)...)
	case "ratio":
		// white space after the root (legal, outside every signature) until the document is exactly r times as long
		// as its encoding: buffer-growth arithmetic meets its boundary
		r := []int{3, 4, 5, 6, 8, 16, 2, 32}[((p.Level%8)+8)%8]
		k := 0
		for iter := 0; iter < 60; iter++ {
			doc := append(append([]byte{}, xml...), bytes.Repeat([]byte{' '}, k)...)
			c := Deflate(doc, 6)
			want := r*len(c) - len(xml)
			if want == k {
				return c
			}
			if want < 0 {
				break
			}
			k = want
		}
		return Deflate(xml, 6)
	case "stored-tail":
		bl := []int{}
		for i := 0; i*1024 < len(xml); i++ {
			bl = append(bl, 1024)
		}
		return DeflateStored(xml, bl, nil)
	}
	return Deflate(xml, lvl)
}

func Encode(xml []byte, p Presentation) string {
	return base64.StdEncoding.EncodeToString(p.Compress(xml))
}

// bitWriter packs bits LSB-first, the order of RFC 1951.
type bitWriter struct {
	out  []byte
	acc  uint32
	nacc uint
}

func (w *bitWriter) bits(v uint32, n uint) { // n bits of v, least significant first
	w.acc |= v << w.nacc
	w.nacc += n
	for w.nacc >= 8 {
		w.out = append(w.out, byte(w.acc))
		w.acc >>= 8
		w.nacc -= 8
	}
}

func (w *bitWriter) code(c uint32, n uint) { // a Huffman code: most significant bit first
	for i := int(n) - 1; i >= 0; i-- {
		w.bits((c>>uint(i))&1, 1)
	}
}

func (w *bitWriter) align() {
	if w.nacc > 0 {
		w.out = append(w.out, byte(w.acc))
		w.acc, w.nacc = 0, 0
	}
}

// EmptyDynamicBlock returns a non-final dynamic-Huffman block that carries no data (only end-of-block) and
// declares HLIT = hlit (2..9), followed by an empty non-final stored block so that whatever comes next starts
// on a byte boundary. Its first byte is 0x04 + 8*hlit. Any inflater must skip it.
func EmptyDynamicBlock(hlit int) []byte {
	if hlit < 2 || hlit > 9 {
		panic("hlit out of range")
	}
	w := &bitWriter{}
	w.bits(0, 1)            // BFINAL
	w.bits(2, 2)            // BTYPE = dynamic
	w.bits(uint32(hlit), 5) // HLIT: 257+hlit literal/length codes
	w.bits(0, 5)            // HDIST: 1 distance code
	w.bits(14, 4)           // HCLEN: 18 code-length code lengths
	// code-length alphabet in transmission order 16,17,18,0,8,7,9,6,10,5,11,4,12,3,13,2,14,1,(15):
	// symbol 17 -> 2 bits, 18 -> 1 bit, 1 -> 2 bits, all others unused
	for i, sym := range []int{16, 17, 18, 0, 8, 7, 9, 6, 10, 5, 11, 4, 12, 3, 13, 2, 14, 1} {
		_ = i
		switch sym {
		case 17, 1:
			w.bits(2, 3)
		case 18:
			w.bits(1, 3)
		default:
			w.bits(0, 3)
		}
	}
	// canonical codes: 18 -> "0", 1 -> "10", 17 -> "11"
	one := func() { w.code(2, 2) }
	zeros18 := func(n int) { w.code(0, 1); w.bits(uint32(n-11), 7) } // 11..138 zeros
	zeros17 := func(n int) { w.code(3, 2); w.bits(uint32(n-3), 3) }  // 3..10 zeros
	// literal/length lengths: symbol 0 -> 1, symbols 1..255 -> 0, symbol 256 -> 1, then hlit zeros, plus one
	// distance length of 0
	one()
	zeros18(138)
	zeros18(117)
	one()
	zeros17(hlit + 1)
	// data: end-of-block only. literal/length codes: symbol 0 -> "0", symbol 256 -> "1"
	w.code(1, 1)
	// empty stored block, non-final
	w.bits(0, 1)
	w.bits(0, 2)
	w.align()
	w.out = append(w.out, 0, 0, 0xff, 0xff)
	return w.out
}

// PlainSerialize writes the tree with etree's default writer.
func PlainSerialize(root *etree.Element) []byte {
	doc := etree.NewDocument()
	doc.SetRoot(root.Copy())
	b, err := doc.WriteToBytes()
	if err != nil {
		panic(fmt.Sprintf("serialize: %v", err))
	}
	return b
}

// DeflateStored encodes b as a sequence of DEFLATE *stored* blocks (RFC 1951, 3.2.4) with chosen block
// lengths and chosen values for the five ignored padding bits of each block header. Any such stream is a
// valid DEFLATE encoding of b; compressors never emit most of them, decoders must accept all of them.
func DeflateStored(b []byte, blockLens []int, pads []int) []byte {
	var out []byte
	i, k := 0, 0
	for {
		n := len(b) - i
		if k < len(blockLens) && blockLens[k] < n {
			n = blockLens[k]
		}
		if n > 65535 {
			n = 65535
		}
		final := byte(0)
		if i+n >= len(b) {
			final = 1
		}
		pad := 0
		if k < len(pads) {
			pad = pads[k] & 0x1f
		}
		out = append(out, final|byte(pad<<3), byte(n), byte(n>>8), ^byte(n), ^byte(n>>8))
		out = append(out, b[i:i+n]...)
		i += n
		k++
		if final == 1 {
			return out
		}
	}
}
