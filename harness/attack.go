package harness

import (
	"encoding/base64"
	"fmt"
	"strings"
	"time"

	"github.com/beevik/etree"
	"pgregory.net/rapid"
)

// Op is one structure-aware mutation. Integer arguments are interpreted
// modulo whatever they select, so every Op is applicable to every tree.
type Op struct {
	Kind string `json:"kind"`
	A    int    `json:"a"`
	B    int    `json:"b"`
	C    int    `json:"c"`
	S    string `json:"s,omitempty"`
}

var OpKinds = []string{
	"edit-text", "edit-attr", "remove-el", "add-attr", "wrap-root", "forge-assertion", "dup-el", "move-sig", "swap-sig",
	"strip-sig", "id-game", "ref-game", "sig-shape", "resign", "ns-trick", "comment-trick", "encrypt", "splice", "rename-el", "nest-el", "nest-assertion",
}

func GenOp() *rapid.Generator[Op] {
	return rapid.Custom(func(t *rapid.T) Op {
		return Op{
			Kind: rapid.SampledFrom(OpKinds).Draw(t, "op"),
			A:    rapid.IntRange(0, 63).Draw(t, "a"),
			B:    rapid.IntRange(0, 63).Draw(t, "b"),
			C:    rapid.IntRange(0, 63).Draw(t, "c"),
			S:    rapid.SampledFrom([]string{"attacker@evil.example", "admin", "_forged1", "https://evil.example/", "x", ""}).Draw(t, "s"),
		}
	})
}

// AttackCtx is what the attacker has: the SP's public configuration, the pool
// of genuine messages, own keys (never trusted), and the SP encryption certificate.
type AttackCtx struct {
	SP       SPConfig
	Pool     []*etree.Element // genuine, signed trees (never modified; copies are taken)
	Notes    []string         // features used, for classification
	NonAsrtE bool             // an EncryptedAssertion with non-assertion plaintext was produced
	seq      int
}

func (c *AttackCtx) note(s string) { c.Notes = append(c.Notes, s) }

func allElems(root *etree.Element) []*etree.Element {
	var out []*etree.Element
	var walk func(e *etree.Element)
	walk = func(e *etree.Element) {
		out = append(out, e)
		for _, ch := range e.ChildElements() {
			walk(ch)
		}
	}
	walk(root)
	return out
}

func byTag(root *etree.Element, tag string) []*etree.Element {
	var out []*etree.Element
	for _, e := range allElems(root) {
		if e.Tag == tag {
			out = append(out, e)
		}
	}
	return out
}

func pick(list []*etree.Element, i int) *etree.Element {
	if len(list) == 0 {
		return nil
	}
	return list[i%len(list)]
}

// prefixFor finds a prefix bound to uri in scope of el ("" may mean default); ok=false if none.
func prefixFor(el *etree.Element, uri string) (string, bool) {
	for e := el; e != nil; e = e.Parent() {
		for _, a := range e.Attr {
			if a.Value == uri {
				if a.Space == "xmlns" {
					return a.Key, true
				}
				if a.Space == "" && a.Key == "xmlns" {
					return "", true
				}
			}
		}
	}
	return "", false
}

// forgedAssertion builds an attacker-controlled assertion that would pass every profile check.
func (c *AttackCtx) forgedAssertion(id, nameID string) *etree.Element {
	now := c.SP.Now()
	ts := func(d time.Duration) Opt { return S(now.Add(d).UTC().Format(time.RFC3339)) }
	c.seq++
	if id == "" {
		id = fmt.Sprintf("_forged%d", c.seq)
	}
	issuer := c.SP.IdPIssuer
	if issuer == "" {
		issuer = "https://idp.example.com/metadata"
	}
	m := AssertionModel{ID: S(id), Version: S("2.0"), IssueInstant: ts(-time.Minute), Issuer: S(issuer), HasSubject: true, NameID: S(nameID),
		HasSC: true, SCMethod: S(Bearer), HasSCD: true, Recipient: S(c.SP.ACS), SCNotOnOrAfter: ts(10 * time.Minute),
		HasConditions: true, NotBefore: ts(-10 * time.Minute), NotOnOrAfter: ts(10 * time.Minute),
		HasAttrStmt: true, Attrs: []AttrModel{{Name: "role", Values: []string{"superadmin"}}, {Name: "forged", Values: []string{"yes"}}},
		HasAuthn: true, SessionIndex: S("_forged_session")}
	el := BuildAssertion(&m, NSStyle{P: "samlp", A: "fa"})
	declNS(el, "fa", NSAssertion)
	return el
}

func (c *AttackCtx) attackerSign(el *etree.Element, variant int) {
	key := "A"
	spec := DefaultSign(key)
	switch variant % 4 {
	case 1: // embed a trusted certificate (foreign-key pairing)
		if len(c.SP.Store) > 0 {
			e := c.SP.Store[0]
			spec.Embed = &e
		}
	case 2:
		spec.Embed = nil
	case 3:
		spec = DefaultSign("A2")
	}
	if variant%16 >= 12 {
		// the attacker's own certificate, dressed up with the subject and SubjectKeyIdentifier / serial number of a
		// trusted one
		la := CertRef{"A", []string{"like-T1ski", "like-T2ski", "like-T1", "like-T1ski"}[variant%4]}
		spec = DefaultSign("A")
		spec.Embed = &la
	}
	spec.AfterIssuer = variant%8 < 4
	before := map[*etree.Element]bool{}
	for _, ch := range el.ChildElements() {
		before[ch] = true
	}
	if err := SignInPlace(el, spec); err == nil {
		c.note("attacker-signed")
		// KeyInfo lies outside SignedInfo: a second X509Certificate (a TRUSTED one) can be put beside the
		// attacker's own, before or after it — whichever certificate a validator picks, this signature was
		// not made by a trusted key
		if k := (variant / 8) % 3; k != 0 && len(c.SP.Store) > 0 && spec.Embed != nil {
			for _, sg := range el.ChildElements() {
				if sg.Tag != "Signature" || before[sg] {
					continue // only the attacker's OWN new signature is dressed up
				}
				if xd := findTag(sg, "X509Data"); xd != nil {
					if first := findTag(xd, "X509Certificate"); first != nil {
						extra := first.Copy()
						extra.SetText(base64.StdEncoding.EncodeToString(c.SP.Store[0].DER()))
						if k == 1 {
							xd.AddChild(extra)
						} else {
							xd.InsertChildAt(first.Index(), extra)
						}
						c.note(fmt.Sprintf("keyinfo-two-certs:%d", k))
					}
				}
				break
			}
		}
	}
}

func sigs(root *etree.Element) []*etree.Element { return byTag(root, "Signature") }

// Apply runs one operator on the working tree and returns the (possibly new) root.
func (c *AttackCtx) Apply(root *etree.Element, op Op) *etree.Element {
	els := allElems(root)
	switch op.Kind {
	case "edit-text":
		var texty []*etree.Element
		for _, e := range els {
			if len(e.ChildElements()) == 0 {
				texty = append(texty, e)
			}
		}
		if e := pick(texty, op.A); e != nil {
			e.SetText(op.S)
			c.note("edit-text:" + e.Tag)
		}
	case "edit-attr":
		e := pick(els, op.A)
		if len(e.Attr) > 0 {
			i := op.B % len(e.Attr)
			if e.Attr[i].Space != "xmlns" && e.Attr[i].Key != "xmlns" {
				e.Attr[i].Value = op.S
				c.note("edit-attr:" + e.Attr[i].Key)
			}
		}
	case "remove-el":
		if len(els) > 1 {
			e := els[1+op.A%(len(els)-1)]
			e.Parent().RemoveChild(e)
			c.note("remove-el:" + e.Tag)
		}
	case "add-attr":
		e := pick(els, op.A)
		names := []string{"ID", "Destination", "InResponseTo", "Version", "IssueInstant", "NotOnOrAfter", "Recipient", "SignatureValidated", "SignatureValidated", "x:SignatureValidated", "ResponseSignatureValidated",
			"xmlns:IssueInstant", "xmlns:Version", "xmlns:InResponseTo", "xmlns:Destination", "xmlns:NotOnOrAfter", "xmlns:Recipient", "xmlns:ID", "xmlns:Method", "xmlns:Value", "xmlns:SessionIndex", "xmlns:NotBefore"}
		n := names[op.B%len(names)]
		v := op.S
		if strings.HasPrefix(n, "xmlns:") {
			// a namespace DECLARATION whose prefix is the name of an attribute the decoders read: unused, so exclusive
			// canonicalisation neither signs nor keeps it — and a decoder that matches attributes by local name takes
			// it for the attribute. On the root, on an assertion, in front of or behind the real attributes.
			switch op.C % 3 {
			case 1:
				if as := byTag(root, "Assertion"); len(as) > 0 {
					e = as[op.A%len(as)]
				}
			case 2:
				e = root
			}
			v = []string{"urn:evil", "1.1", "2001-01-01T00:00:00Z", "https://evil.example/acs", "2.0", "2199-01-01T00:00:00Z"}[(op.A/2)%6]
			if e.SelectAttr(n) == nil {
				if op.A%2 == 0 {
					e.Attr = append([]etree.Attr{{Space: "xmlns", Key: strings.TrimPrefix(n, "xmlns:"), Value: v}}, e.Attr...)
				} else {
					e.CreateAttr(n, v)
				}
			}
			c.note("add-attr:" + n)
			break
		}
		if strings.Contains(n, "SignatureValidated") {
			// names of the library's result fields: a decoder that maps them from the message would let the
			// message vouch for itself
			v = []string{"true", "1", "True"}[op.C%3]
			if strings.HasPrefix(n, "x:") && e.SelectAttr("xmlns:x") == nil {
				e.CreateAttr("xmlns:x", "urn:x")
			}
			if op.C%2 == 0 {
				if as := byTag(root, "Assertion"); len(as) > 0 {
					e = as[op.A%len(as)]
				}
			}
		}
		e.CreateAttr(n, v)
		c.note("add-attr:" + n)
	case "wrap-root":
		root = c.wrapRoot(root, op)
	case "forge-assertion":
		root = c.forge(root, op)
	case "dup-el":
		e := pick(els, 1+op.A)
		if e != nil && e.Parent() != nil {
			cp := e.Copy()
			idx := e.Index()
			if op.B%2 == 0 {
				idx++
			}
			e.Parent().InsertChildAt(idx, cp)
			if op.C%2 == 0 {
				if n := findTag(cp, "NameID"); n != nil {
					n.SetText(op.S)
				} else if len(cp.ChildElements()) == 0 {
					cp.SetText(op.S)
				}
			}
			c.note("dup-el:" + e.Tag)
		}
	case "move-sig":
		if s := pick(sigs(root), op.A); s != nil {
			dst := pick(els, op.B)
			if dst != s && !isAncestor(s, dst) {
				mv := s
				if op.C%2 == 0 {
					mv = s.Copy()
				} else {
					s.Parent().RemoveChild(s)
				}
				if op.C%4 < 2 {
					dst.InsertChildAt(0, mv)
				} else {
					dst.AddChild(mv)
				}
				c.note("move-sig->" + dst.Tag)
			}
		}
	case "swap-sig":
		ss := sigs(root)
		if len(ss) >= 2 {
			a, b := ss[op.A%len(ss)], ss[op.B%len(ss)]
			if a != b && !isAncestor(a, b) && !isAncestor(b, a) {
				pa, pb := a.Parent(), b.Parent()
				ia, ib := a.Index(), b.Index()
				pa.RemoveChild(a)
				pb.RemoveChild(b)
				if ia > len(pa.Child) {
					ia = len(pa.Child)
				}
				pa.InsertChildAt(ia, b)
				if ib > len(pb.Child) {
					ib = len(pb.Child)
				}
				pb.InsertChildAt(ib, a)
				c.note("swap-sig")
			}
		}
	case "strip-sig":
		ss := sigs(root)
		if len(ss) > 0 {
			if op.B%4 == 0 {
				for _, s := range ss {
					if s.Parent() != nil {
						s.Parent().RemoveChild(s)
					}
				}
				c.note("strip-sig:all")
			} else {
				if s := ss[op.A%len(ss)]; s.Parent() != nil {
					c.note("strip-sig:" + s.Parent().Tag)
					s.Parent().RemoveChild(s)
				}
			}
		}
	case "id-game":
		var withID []*etree.Element
		for _, e := range els {
			if e.SelectAttr("ID") != nil {
				withID = append(withID, e)
			}
		}
		if e := pick(withID, op.A); e != nil {
			old := e.SelectAttrValue("ID", "")
			switch op.B % 6 {
			case 0:
				e.RemoveAttr("ID")
			case 1: // namespaced x:ID before the plain one
				e.Attr = append([]etree.Attr{{Space: "xmlns", Key: "x", Value: "urn:x"}, {Space: "x", Key: "ID", Value: op.S}}, e.Attr...)
			case 2: // namespaced x:ID after
				e.Attr = append(e.Attr, etree.Attr{Space: "xmlns", Key: "x", Value: "urn:x"}, etree.Attr{Space: "x", Key: "ID", Value: op.S})
			case 3: // another element takes over this ID
				if o := pick(els, op.C); o != e {
					o.RemoveAttr("ID")
					o.CreateAttr("ID", old)
				}
			case 4:
				e.RemoveAttr("ID")
				e.CreateAttr("Id", old)
			case 5:
				e.Attr = append(e.Attr, etree.Attr{Key: "ID", Value: op.S}) // literally duplicated attribute
			}
			c.note(fmt.Sprintf("id-game:%d", op.B%6))
		}
	case "ref-game":
		if r := pick(byTag(root, "Reference"), op.A); r != nil {
			u := r.SelectAttrValue("URI", "")
			if len(u) > 0 {
				u = u[1:]
			}
			ids := []string{"", "#", "#" + op.S, "#x" + u}
			for _, e := range els {
				if v := e.SelectAttrValue("ID", ""); v != "" {
					ids = append(ids, "#"+v)
				}
			}
			r.RemoveAttr("URI")
			r.CreateAttr("URI", ids[op.B%len(ids)])
			c.note("ref-game")
		}
	case "sig-shape":
		if s := pick(sigs(root), op.A); s != nil {
			tags := []string{"SignedInfo", "SignatureValue", "KeyInfo", "Reference", "Transform", "X509Certificate", "DigestValue"}
			tg := tags[op.B%len(tags)]
			if e := findTag(s, tg); e != nil {
				cp := e.Copy()
				if op.C%2 == 0 && len(cp.ChildElements()) == 0 {
					cp.SetText(op.S)
				}
				if tg == "Reference" && op.C%3 == 0 {
					// a further Reference that points somewhere else (multi-Reference SignedInfo)
					cp.RemoveAttr("URI")
					cp.CreateAttr("URI", "#_elsewhere")
				}
				if op.C%4 < 2 {
					e.Parent().InsertChildAt(e.Index(), cp)
				} else {
					e.Parent().InsertChildAt(e.Index()+1, cp)
				}
				c.note("sig-shape:" + tg)
			}
			if op.C%8 == 7 {
				if m := findTag(s, "SignatureMethod"); m != nil {
					m.RemoveAttr("Algorithm")
					m.CreateAttr("Algorithm", "http://www.w3.org/2000/09/xmldsig#hmac-sha1")
				}
			}
		}
	case "resign":
		var cands []*etree.Element
		for _, e := range els {
			if e.SelectAttr("ID") != nil && e.Tag != "Signature" {
				cands = append(cands, e)
			}
		}
		if e := pick(cands, op.A); e != nil {
			if op.C%2 == 0 {
				for _, s := range e.ChildElements() {
					if s.Tag == "Signature" {
						e.RemoveChild(s)
					}
				}
			}
			c.attackerSign(e, op.B)
		}
	case "ns-trick":
		e := pick(els, op.A)
		switch op.B % 5 {
		case 0: // rebind the element's own prefix to another namespace here
			if e.Space != "" {
				e.CreateAttr("xmlns:"+e.Space, "urn:evil:ns")
			} else {
				e.CreateAttr("xmlns", "urn:evil:ns")
			}
		case 1: // alias prefix for the same namespace on a subtree
			if uri := nsOf(e); uri != "" {
				e.CreateAttr("xmlns:alias", uri)
				for _, d := range allElems(e) {
					if nsOf(d) == uri {
						d.Space = "alias"
					}
				}
			}
		case 2:
			e.Space = "undeclared"
		case 3:
			e.CreateAttr("xmlns:xml", "http://www.w3.org/XML/1998/namespace")
		case 4:
			e.CreateAttr("xmlns:xmlns", "http://www.w3.org/2000/xmlns/")
		}
		c.note(fmt.Sprintf("ns-trick:%d", op.B%5))
	case "comment-trick":
		var texty []*etree.Element
		for _, e := range els {
			if len(e.ChildElements()) == 0 && e.Text() != "" {
				texty = append(texty, e)
			}
		}
		if e := pick(texty, op.A); e != nil {
			txt := e.Text()
			cut := op.B % (len(txt) + 1)
			for len(e.Child) > 0 {
				e.RemoveChildAt(0)
			}
			switch op.C % 3 {
			case 0:
				e.AddChild(etree.NewText(txt[:cut]))
				e.AddChild(etree.NewComment("c"))
				e.AddChild(etree.NewText(txt[cut:]))
			case 1:
				e.AddChild(etree.NewText(op.S))
				e.AddChild(etree.NewComment(txt))
			case 2:
				e.AddChild(etree.NewCData(op.S))
				e.AddChild(etree.NewComment(" " + txt + " "))
			}
			c.note("comment-trick:" + e.Tag)
		}
	case "encrypt":
		root = c.encryptOp(root, op)
	case "splice":
		if len(c.Pool) > 0 {
			src := c.Pool[op.A%len(c.Pool)]
			as := byTag(src, "Assertion")
			if a := pick(as, op.B); a != nil {
				cp, err := DetachedCopy(a)
				if err == nil {
					dst := root
					if op.C%4 == 3 {
						dst = pick(els, op.C)
					}
					if op.C%2 == 0 {
						dst.AddChild(cp)
					} else {
						dst.InsertChildAt(0, cp)
					}
					c.note("splice")
				}
			}
		}
	case "rename-el":
		e := pick(els, op.A)
		tags := []string{"Response", "LogoutResponse", "LogoutRequest", "Assertion", "Advice", "Extensions", "EncryptedAssertion", "Signature", "Object"}
		e.Tag = tags[op.B%len(tags)]
		c.note("rename-el:" + e.Tag)
	case "nest-assertion":
		// move a whole (possibly signed) Assertion / EncryptedAssertion one level down, under a wrapper
		// element of the root or under another element, leaving it otherwise intact
		var cands []*etree.Element
		for _, e := range els {
			if (e.Tag == "Assertion" || e.Tag == "EncryptedAssertion") && e.Parent() != nil {
				cands = append(cands, e)
			}
		}
		if a := pick(cands, op.A); a != nil {
			holders := []string{"Extensions", "Advice", "StatusDetail", "Object", "Wrapper"}
			w := etree.NewElement(holders[op.B%len(holders)])
			w.Space = root.Space
			p := a.Parent()
			idx := a.Index()
			p.RemoveChild(a)
			w.AddChild(a)
			switch op.C % 3 {
			case 0:
				if idx > len(p.Child) {
					idx = len(p.Child)
				}
				p.InsertChildAt(idx, w)
			case 1:
				root.AddChild(w)
			default:
				if st := findTag(root, "Status"); st != nil && !isAncestor(a, st) {
					st.AddChild(w)
				} else {
					root.InsertChildAt(0, w)
				}
			}
			c.note("nest-assertion:" + w.Tag)
		}
	case "nest-el":
		// move element A under element B (not its own descendant)
		if len(els) > 2 {
			e := els[1+op.A%(len(els)-1)]
			dst := pick(els, op.B)
			if dst != e && !isAncestor(e, dst) {
				e.Parent().RemoveChild(e)
				dst.AddChild(e)
				c.note("nest-el:" + e.Tag + "->" + dst.Tag)
			}
		}
	}
	return root
}

func findTag(el *etree.Element, tag string) *etree.Element {
	for _, e := range allElems(el) {
		if e.Tag == tag {
			return e
		}
	}
	return nil
}

func isAncestor(a, d *etree.Element) bool {
	for p := d; p != nil; p = p.Parent() {
		if p == a {
			return true
		}
	}
	return false
}

// nsOf resolves the namespace of an element with a plain scope walk (the harness's own resolver).
func nsOf(e *etree.Element) string {
	for p := e; p != nil; p = p.Parent() {
		for _, a := range p.Attr {
			if e.Space == "" && a.Space == "" && a.Key == "xmlns" {
				return a.Value
			}
			if e.Space != "" && a.Space == "xmlns" && a.Key == e.Space {
				return a.Value
			}
		}
	}
	return ""
}

func (c *AttackCtx) wrapRoot(root *etree.Element, op Op) *etree.Element {
	kinds := []string{"Response", "Response", "LogoutResponse", "LogoutRequest", "Envelope"}
	kind := kinds[op.A%len(kinds)]
	now := c.SP.Now()
	nr := mk("samlp", kind)
	declNS(nr, "samlp", NSProtocol)
	declNS(nr, "saml", NSAssertion)
	id := "_wrapper"
	if op.B%3 == 0 {
		id = root.SelectAttrValue("ID", id) // ID collision with the genuine root
	}
	nr.CreateAttr("ID", id)
	nr.CreateAttr("Version", "2.0")
	nr.CreateAttr("IssueInstant", now.UTC().Format(time.RFC3339))
	dest := c.SP.ACS
	if kind != "Response" {
		dest = c.SP.SLO
	}
	nr.CreateAttr("Destination", dest)
	issuer := c.SP.IdPIssuer
	if issuer == "" {
		issuer = "https://idp.example.com/metadata"
	}
	nr.CreateElement("saml:Issuer").SetText(issuer)
	st := nr.CreateElement("samlp:Status")
	st.CreateElement("samlp:StatusCode").CreateAttr("Value", StatusSuccess)
	if kind == "LogoutRequest" {
		nr.CreateElement("saml:NameID").SetText(op.S)
	}
	old := root.Copy()
	switch op.C % 6 {
	case 0:
		nr.CreateElement("samlp:Extensions").AddChild(old)
	case 1:
		st.CreateElement("samlp:StatusDetail").AddChild(old)
	case 2:
		nr.AddChild(old)
	case 3:
		fa := c.forgedAssertion("", op.S)
		adv := mk("fa", "Advice")
		adv.AddChild(old)
		fa.InsertChildAt(1, adv)
		nr.AddChild(fa)
	case 4:
		fa := c.forgedAssertion("", op.S)
		if scd := findTag(fa, "SubjectConfirmationData"); scd != nil {
			scd.AddChild(old)
		}
		nr.AddChild(fa)
	case 5:
		// hide the genuine message inside ds:Object of a copied signature
		if s := findTag(old, "Signature"); s != nil {
			sc := s.Copy()
			obj := sc.CreateElement("ds:Object")
			declNS(obj, "ds", NSDsig)
			obj.AddChild(old)
			nr.InsertChildAt(1, sc)
		} else {
			nr.AddChild(old)
		}
	}
	if kind == "Response" && op.C%6 < 3 && op.B%2 == 0 {
		nr.AddChild(c.forgedAssertion("", op.S))
	}
	c.note(fmt.Sprintf("wrap-root:%s:%d", kind, op.C%6))
	return nr
}

func (c *AttackCtx) forge(root *etree.Element, op Op) *etree.Element {
	as := byTag(root, "Assertion")
	id := ""
	var gen *etree.Element
	if len(as) > 0 {
		gen = as[op.A%len(as)]
		if op.B%3 == 0 {
			id = gen.SelectAttrValue("ID", "")
		}
	}
	nameID := op.S
	if nameID == "" {
		nameID = "attacker@evil.example"
	}
	fa := c.forgedAssertion(id, nameID)
	variant := op.C % 11
	switch {
	case gen == nil || gen.Parent() == nil:
		root.AddChild(fa)
	case variant == 0: // sibling before
		gen.Parent().InsertChildAt(gen.Index(), fa)
	case variant == 1: // sibling after
		gen.Parent().InsertChildAt(gen.Index()+1, fa)
	case variant == 2: // genuine nested inside forged (Advice)
		p := gen.Parent()
		idx := gen.Index()
		p.RemoveChild(gen)
		adv := mk("fa", "Advice")
		adv.AddChild(gen)
		fa.InsertChildAt(1, adv)
		p.InsertChildAt(idx, fa)
	case variant == 3: // forged nested inside genuine (e.g. in Advice) -- breaks its signature unless unsigned
		adv := gen.CreateElement("Advice")
		adv.Space = gen.Space
		adv.AddChild(fa)
	case variant == 4: // forged carries a COPY of the genuine signature
		if s := findTag(gen, "Signature"); s != nil {
			fa.InsertChildAt(1, s.Copy())
		}
		gen.Parent().InsertChildAt(gen.Index(), fa)
	case variant == 5: // forged replaces genuine, genuine moved into the forged one's Signature/Object
		p := gen.Parent()
		idx := gen.Index()
		p.RemoveChild(gen)
		if s := findTag(gen, "Signature"); s != nil {
			sc := s.Copy()
			obj := sc.CreateElement("ds:Object")
			declNS(obj, "ds", NSDsig)
			obj.AddChild(gen)
			fa.InsertChildAt(1, sc)
		}
		p.InsertChildAt(idx, fa)
	case variant >= 8: // forged parked inside the genuine assertion's ds:Signature (outside SignedInfo: not
		// covered by the enveloped signature), wrapped in an Advice / Object / Extensions holder
		if sg := findTag(gen, "Signature"); sg != nil && sg.Parent() == gen {
			var holder *etree.Element
			switch variant {
			case 8:
				obj := sg.CreateElement("Object")
				obj.Space = sg.Space
				holder = mk("fa", "Advice")
				declNS(holder, "fa", NSAssertion)
				obj.AddChild(holder)
			case 9:
				holder = mk("fa", "Advice")
				declNS(holder, "fa", NSAssertion)
				sg.AddChild(holder)
			default:
				holder = sg.CreateElement("Object")
				holder.Space = sg.Space
			}
			holder.AddChild(fa)
		} else {
			root.AddChild(fa)
		}
	case variant == 6: // first child of root
		root.InsertChildAt(0, fa)
	default:
		root.AddChild(fa)
	}
	if op.B%4 == 1 {
		c.attackerSign(fa, op.A)
	}
	c.note(fmt.Sprintf("forge:%d", variant))
	return root
}

func (c *AttackCtx) encryptOp(root *etree.Element, op Op) *etree.Element {
	to, ok := c.SP.Enc.Effective()
	if !ok {
		to = CertRef{"E1", "wide"} // attacker guesses; SP has no key: must be refused
	}
	var target *etree.Element
	as := byTag(root, "Assertion")
	switch {
	case op.B%4 == 3: // non-assertion plaintext
		target = nil
	case len(as) > 0:
		target = as[op.A%len(as)]
	}
	enc := &EncSpec{DataAlg: DataAlgs[op.C%len(DataAlgs)], Transport: Transports[op.A%len(Transports)], Digest: "-", To: to,
		Key: make([]byte, KeyLen(DataAlgs[op.C%len(DataAlgs)])), IV: make([]byte, 16)}
	for i := range enc.Key {
		enc.Key[i] = byte(i*7 + op.A)
	}
	if IsGCM(enc.DataAlg) {
		enc.IV = enc.IV[:12]
	}
	if op.B%5 == 4 {
		r := CertRef{"U1", "wide"}
		enc.Recipient = &r // names a recipient certificate different from the SP's
	}
	var plain []byte
	var parent *etree.Element
	idx := 0
	if target != nil && target.Parent() != nil {
		det, err := DetachedCopy(target)
		if err != nil {
			return root
		}
		if nsOf(target) != NSAssertion {
			// an element merely NAMED Assertion (renamed by an earlier operator) in another namespace:
			// its ciphertext is an EncryptedAssertion that does not carry a SAML assertion
			c.NonAsrtE = true
		}
		plain = Serialize(det, Layout{})
		parent, idx = target.Parent(), target.Index()
		parent.RemoveChild(target)
	} else {
		var el *etree.Element
		switch op.C % 4 {
		case 1: // another Issuer
			el = mk("saml", "Issuer")
			declNS(el, "saml", NSAssertion)
			el.SetText("https://evil-idp.example.net")
		case 2: // another Status
			el = mk("samlp", "Status")
			declNS(el, "samlp", NSProtocol)
			sc := mk("samlp", "StatusCode")
			sc.CreateAttr("Value", StatusSuccess)
			el.AddChild(sc)
		default:
			el = mk("samlp", "Extensions")
			declNS(el, "samlp", NSProtocol)
			el.AddChild(c.forgedAssertion("", op.S))
		}
		plain = Serialize(el, Layout{})
		parent, idx = root, len(root.Child)
		if op.A%2 == 1 {
			idx = 0 // in front of everything
		}
		c.NonAsrtE = true
	}
	ea, err := enc.EncryptElement(plain, NSStyle{P: "samlp", A: "ea"})
	if err != nil {
		return root
	}
	declNS(ea, "ea", NSAssertion)
	if idx > len(parent.Child) {
		idx = len(parent.Child)
	}
	parent.InsertChildAt(idx, ea)
	c.note("encrypt:" + strings.TrimPrefix(enc.DataAlg, "http://www.w3.org/"))
	return root
}

// CountAssertionElements scans a presented document with the harness's own namespace
// resolution: how many Assertion / EncryptedAssertion elements of the SAML assertion
// namespace it carries, and whether all of them are direct children of the root.
func CountAssertionElements(root *etree.Element) (assertions, encrypted int, allDirect bool) {
	allDirect = true
	var walk func(e *etree.Element, insideEnc bool)
	walk = func(e *etree.Element, insideEnc bool) {
		if nsOf(e) == NSAssertion && (e.Tag == "Assertion" || e.Tag == "EncryptedAssertion") {
			// an XML-Encryption processor replaces a whole EncryptedAssertion by its plaintext: a plain
			// Assertion parked inside one is discarded, never inspected and never honoured. A further
			// EncryptedAssertion in there is still "an encrypted assertion that is not a direct child".
			if !(insideEnc && e.Tag == "Assertion") {
				if e.Tag == "Assertion" {
					assertions++
				} else {
					encrypted++
				}
				if e.Parent() != root {
					allDirect = false
				}
			}
			if e.Tag == "EncryptedAssertion" {
				insideEnc = true
			}
		}
		for _, ch := range e.ChildElements() {
			walk(ch, insideEnc)
		}
	}
	walk(root, false)
	return
}
