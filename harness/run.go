package harness

import (
	"crypto/sha256"
	"encoding/hex"
	"encoding/json"
	"fmt"
	"os"
	"path/filepath"
	"runtime/debug"
	"sort"
	"strconv"
	"strings"
	"sync"
	"testing"

	"pgregory.net/rapid"
)

// Violation is what a check function reports. Sig is the finding signature: a
// short, stable classifier of the root cause / call site, matched against
// known_findings.json.
type Violation struct {
	Sig    string `json:"sig"`
	Detail string `json:"detail"`
}

func V(sig, format string, args ...interface{}) *Violation {
	return &Violation{Sig: sig, Detail: fmt.Sprintf(format, args...)}
}

// Outcome of evaluating one case.
type Outcome struct {
	Violation  *Violation
	NonTrivial bool
	Classes    []string // classification labels (counted in the evidence)
	Excluded   string   // non-empty: the case was skipped by construction because of this known finding
}

type violationRec struct {
	Sig    string `json:"sig"`
	Detail string `json:"detail"`
	Replay string `json:"replay"`
	Known  bool   `json:"known"`
}

// Recorder accumulates the evidence of one test process.
type Recorder struct {
	mu         sync.Mutex
	Prop       string
	Evals      int
	NonTrivial int
	Hashes     map[string]struct{}
	Classes    map[string]int
	Excluded   map[string]int
	KnownHits  map[string]int
	Samples    []json.RawMessage
	Violations []violationRec
	sampleSeen map[string]bool
}

var (
	recMu     sync.Mutex
	recorders = map[string]*Recorder{}
)

// PropOf maps a check id ("C09" or "C09.cipher") to its property id.
func PropOf(id string) string {
	if i := strings.Index(id, "."); i > 0 {
		return id[:i]
	}
	return id
}

func Rec(prop string) *Recorder {
	prop = PropOf(prop)
	recMu.Lock()
	defer recMu.Unlock()
	r, ok := recorders[prop]
	if !ok {
		r = &Recorder{Prop: prop, Hashes: map[string]struct{}{}, Classes: map[string]int{}, Excluded: map[string]int{}, KnownHits: map[string]int{}, sampleSeen: map[string]bool{}}
		recorders[prop] = r
	}
	return r
}

func VerifDir() string {
	if d := os.Getenv("VERIF_DIR"); d != "" {
		return d
	}
	return "/verif"
}

func workDir() string {
	if d := os.Getenv("VERIF_WORK"); d != "" {
		return d
	}
	return filepath.Join(VerifDir(), ".work")
}

func Shard() int {
	n, _ := strconv.Atoi(os.Getenv("VERIF_SHARD"))
	return n
}

// Scale multiplies thorough-tier workloads (grids, exhaustive sweeps).
func Thorough() bool { return os.Getenv("VERIF_TIER") == "thorough" }

func hashCase(b []byte) string {
	h := sha256.Sum256(b)
	return hex.EncodeToString(h[:8])
}

// Add records one evaluated case.
func (r *Recorder) Add(caseJSON []byte, o Outcome) {
	r.mu.Lock()
	defer r.mu.Unlock()
	if o.Excluded != "" {
		r.Excluded[o.Excluded]++
		return
	}
	r.Evals++
	for _, c := range o.Classes {
		r.Classes[c]++
	}
	if o.NonTrivial {
		r.NonTrivial++
		r.Hashes[hashCase(caseJSON)] = struct{}{}
		// keep a few samples, preferring different class signatures
		key := strings.Join(o.Classes, ",")
		if len(r.Samples) < 6 && !r.sampleSeen[key] {
			r.sampleSeen[key] = true
			r.Samples = append(r.Samples, json.RawMessage(abridge(caseJSON, o.Classes)))
		}
	}
}

// CountExcluded notes that a generator avoided an input shape because of an open finding.
func CountExcluded(prop, what string) {
	r := Rec(prop)
	r.mu.Lock()
	r.Excluded[what]++
	r.mu.Unlock()
}

// abridge renders a case for the evidence: the same JSON with long strings (encoded messages, key material)
// cut to their first 160 characters, so that a reader sees the whole structure of the case.
func abridge(caseJSON []byte, classes []string) []byte {
	var v interface{}
	dec := json.NewDecoder(strings.NewReader(string(caseJSON)))
	dec.UseNumber() // keep int64 nanosecond instants exact
	if dec.Decode(&v) != nil {
		return caseJSON
	}
	var walk func(x interface{}) interface{}
	walk = func(x interface{}) interface{} {
		switch t := x.(type) {
		case string:
			if len(t) > 200 {
				return fmt.Sprintf("%s… (%d characters)", t[:160], len(t))
			}
			return t
		case []interface{}:
			if len(t) > 24 {
				t = append(append([]interface{}{}, t[:24]...), fmt.Sprintf("… (%d elements)", len(t)))
			}
			for i := range t {
				t[i] = walk(t[i])
			}
			return t
		case map[string]interface{}:
			for k := range t {
				t[k] = walk(t[k])
			}
			return t
		}
		return x
	}
	out, err := json.Marshal(map[string]interface{}{"classes": classes, "case": walk(v)})
	if err != nil {
		return caseJSON
	}
	if len(out) > 12000 {
		out, _ = json.Marshal(map[string]interface{}{"classes": classes, "case_prefix": string(out[:12000])})
	}
	return out
}

// ---- known findings -------------------------------------------------------------

type Finding struct {
	Property  string `json:"property"`
	Status    string `json:"status"` // "known" | "fixed"
	Signature string `json:"signature"`
	What      string `json:"what"`
	Commit    string `json:"commit,omitempty"`
}

var (
	findingsOnce sync.Once
	findings     []Finding
)

func Findings() []Finding {
	findingsOnce.Do(func() {
		b, err := os.ReadFile(filepath.Join(VerifDir(), "known_findings.json"))
		if err != nil {
			return
		}
		var f struct {
			Findings []Finding `json:"findings"`
		}
		if json.Unmarshal(b, &f) == nil {
			findings = f.Findings
		}
	})
	return findings
}

// Known reports whether a signature is listed with status "known" for prop.
func Known(prop, sig string) bool {
	prop = PropOf(prop)
	for _, f := range Findings() {
		if f.Property == prop && f.Status == "known" && f.Signature == sig {
			return true
		}
	}
	return false
}

// Open reports whether the named finding is still open (status known), which
// switches on generator-side exclusions so that the search continues past it.
func Open(prop, sig string) bool { return Known(prop, sig) }

// ---- saving replays -----------------------------------------------------------------

func saveReplay(check string, caseJSON []byte, v *Violation) string {
	prop := PropOf(check)
	base := os.Getenv("VERIF_REPLAYS")
	if base == "" {
		base = filepath.Join(VerifDir(), "replays")
	}
	dir := filepath.Join(base, prop)
	os.MkdirAll(dir, 0o755)
	name := strings.Map(func(r rune) rune {
		if r == '/' || r == ' ' {
			return '_'
		}
		return r
	}, v.Sig) + fmt.Sprintf(".s%d.json", Shard())
	p := filepath.Join(dir, name)
	wrapped, _ := json.MarshalIndent(map[string]interface{}{"property": prop, "check": check, "sig": v.Sig, "detail": v.Detail, "case": json.RawMessage(caseJSON)}, "", " ")
	os.WriteFile(p, wrapped, 0o644)
	return p
}

func (r *Recorder) addViolation(check string, caseJSON []byte, v *Violation, known bool) string {
	path := ""
	if !known {
		path = saveReplay(check, caseJSON, v)
	}
	r.mu.Lock()
	defer r.mu.Unlock()
	if known {
		r.KnownHits[v.Sig]++
		return ""
	}
	r.Violations = append(r.Violations, violationRec{Sig: v.Sig, Detail: v.Detail, Replay: path})
	// journal: a shard that is killed later (time-out while shrinking a slow case) has still SEEN this violation
	if f, err := os.OpenFile(filepath.Join(workDir(), fmt.Sprintf("violations.%d.jsonl", Shard())), os.O_APPEND|os.O_CREATE|os.O_WRONLY, 0o644); err == nil {
		d := v.Detail
		if len(d) > 2000 {
			d = d[:2000]
		}
		b, _ := json.Marshal(violationRec{Sig: v.Sig, Detail: d, Replay: path})
		f.Write(append(b, '\n'))
		f.Close()
	}
	return path
}

// Flush writes this process's statistics for the driver to aggregate.
func Flush() {
	recMu.Lock()
	defer recMu.Unlock()
	dir := filepath.Join(workDir(), "stats")
	os.MkdirAll(dir, 0o755)
	for prop, r := range recorders {
		r.mu.Lock()
		hashes := make([]string, 0, len(r.Hashes))
		for h := range r.Hashes {
			hashes = append(hashes, h)
		}
		sort.Strings(hashes)
		// keep only the LAST violation per signature (rapid re-runs the minimal case last)
		last := map[string]violationRec{}
		var order []string
		for _, v := range r.Violations {
			if _, ok := last[v.Sig]; !ok {
				order = append(order, v.Sig)
			}
			last[v.Sig] = v
		}
		var vs []violationRec
		for _, s := range order {
			vs = append(vs, last[s])
		}
		out := map[string]interface{}{
			"property": prop, "shard": Shard(), "evaluations": r.Evals, "nontrivial": r.NonTrivial,
			"hashes": hashes, "classes": r.Classes, "excluded": r.Excluded, "known_hits": r.KnownHits,
			"samples": r.Samples, "violations": vs,
		}
		b, _ := json.Marshal(out)
		os.WriteFile(filepath.Join(dir, fmt.Sprintf("%s.%d.json", prop, Shard())), b, 0o644)
		r.mu.Unlock()
	}
}

// Crumb leaves the case being executed on disk, so that a Go fatal error (stack exhaustion, concurrent
// map write), which cannot be recovered and kills the shard process, still yields a replayable input.
func Crumb(check string, c interface{}) {
	b, err := json.Marshal(map[string]interface{}{"property": PropOf(check), "check": check, "sig": "fatal", "detail": "case executing when the process died", "case": c})
	if err != nil {
		return
	}
	os.MkdirAll(workDir(), 0o755)
	os.WriteFile(filepath.Join(workDir(), fmt.Sprintf("crumb.%d.json", Shard())), b, 0o644)
}

// ClearCrumb removes the breadcrumb after the case returned.
func ClearCrumb() { os.Remove(filepath.Join(workDir(), fmt.Sprintf("crumb.%d.json", Shard()))) }

// Guard runs f and converts a panic into a violation signature derived from
// the innermost gosaml2 frame, so that a crash is reported like any other finding.
func Guard(f func()) (pv *Violation) {
	defer func() {
		if r := recover(); r != nil {
			stack := string(debug.Stack())
			pv = &Violation{Sig: "panic/" + panicSite(stack), Detail: fmt.Sprintf("panic: %v\n%s", r, trimStack(stack))}
		}
	}()
	f()
	return nil
}

func panicSite(stack string) string {
	lines := strings.Split(stack, "\n")
	for _, l := range lines {
		l = strings.TrimSpace(l)
		if strings.HasPrefix(l, "github.com/russellhaering/gosaml2") && !strings.Contains(l, "harness") {
			l = strings.TrimPrefix(l, "github.com/russellhaering/gosaml2")
			if i := strings.Index(l, "("); i > 0 && !strings.HasPrefix(l, "(") && !strings.HasPrefix(l, "/types.(") && !strings.HasPrefix(l, ".(") {
				l = l[:i]
			}
			// strip argument lists
			if i := strings.LastIndex(l, "("); i > 0 && strings.HasSuffix(l, ")") {
				l = l[:i]
			}
			return strings.Trim(l, "./")
		}
	}
	return "unknown"
}

func trimStack(s string) string {
	if len(s) > 2500 {
		return s[:2500]
	}
	return s
}

// ---- test drivers ---------------------------------------------------------------------

// Eval runs check on c, records it, and returns a non-empty message if the
// case is an unlisted violation.
func Eval[C any](prop string, c C, check func(C) Outcome) (string, *Violation) {
	b, err := json.Marshal(c)
	if err != nil {
		panic(err)
	}
	var o Outcome
	if pv := Guard(func() { o = check(c) }); pv != nil {
		// a panic inside the check function itself that is not attributable to the
		// library is a harness bug: still surfaces as a violation so it is never silent
		o.Violation = pv
		o.NonTrivial = true
	}
	r := Rec(prop)
	r.Add(b, o)
	if o.Violation == nil {
		return "", nil
	}
	known := Known(prop, o.Violation.Sig)
	path := r.addViolation(prop, b, o.Violation, known)
	if known {
		return "", o.Violation
	}
	return path, o.Violation
}

// RunProp drives a rapid property: gen draws the case, check is the pure oracle.
func RunProp[C any](t *testing.T, prop string, gen func(*rapid.T) C, check func(C) Outcome) {
	defer Flush()
	rapid.Check(t, func(rt *rapid.T) {
		c := gen(rt)
		if path, v := Eval(prop, c, check); path != "" {
			// the message must be identical across re-runs of the same draws (rapid's
			// shrinker compares it), so details go to the log and the replay file only
			rt.Logf("replay=%s\n%s", path, v.Detail)
			rt.Fatalf("VIOLATION-CANDIDATE property=%s sig=%s", prop, v.Sig)
		}
	})
}

// RunCases evaluates an enumerated list of cases (grids, regressions).
func RunCases[C any](t *testing.T, prop string, cases []C, check func(C) Outcome) {
	defer Flush()
	for _, c := range cases {
		if path, v := Eval(prop, c, check); path != "" {
			t.Errorf("VIOLATION-CANDIDATE property=%s sig=%s replay=%s\n%s", prop, v.Sig, path, v.Detail)
		}
	}
}

// RunReplay loads saved cases (regressions/<prop>/*.json and an optional single
// file given in VERIF_REPLAY) and evaluates them without the library.
func RunReplay[C any](t *testing.T, prop string, check func(C) Outcome) {
	defer Flush()
	files, _ := filepath.Glob(filepath.Join(VerifDir(), "regressions", PropOf(prop), "*.json"))
	if f := os.Getenv("VERIF_REPLAY"); f != "" {
		files = []string{f}
	}
	sort.Strings(files)
	for _, f := range files {
		b, err := os.ReadFile(f)
		if err != nil {
			t.Fatalf("read %s: %v", f, err)
		}
		var w struct {
			Check string          `json:"check"`
			Case  json.RawMessage `json:"case"`
		}
		if err := json.Unmarshal(b, &w); err != nil || w.Case == nil {
			t.Fatalf("bad replay file %s: %v", f, err)
		}
		if w.Check != prop {
			continue // a case of another check of the same property
		}
		var c C
		if err := json.Unmarshal(w.Case, &c); err != nil {
			t.Fatalf("replay file %s does not decode: %v", f, err)
		}
		if path, v := Eval(prop, c, check); path != "" {
			t.Errorf("VIOLATION-CANDIDATE property=%s sig=%s replay=%s (from %s)\n%s", prop, v.Sig, path, f, v.Detail)
		}
	}
}
