package harness

import (
	"bytes"
	"fmt"
	"strings"

	"github.com/beevik/etree"
)

// Layout controls the canonicalisation-invariant serialiser. Every field is a
// generated value (drawn through rapid by the caller); per-character choices
// come from a splitmix64 stream seeded by Seed, so a serialisation is a pure
// function of the drawn Layout value and the tree.
type Layout struct {
	Seed         uint64 `json:"seed"`
	AttrShuffle  int    `json:"attrShuffle"` // percent of elements whose attributes are permuted
	SingleQuote  int    `json:"singleQuote"` // percent of attributes written with '
	TagSpace     int    `json:"tagSpace"`    // percent of places inside tags that get extra white space
	SelfClose    int    `json:"selfClose"`   // percent of empty elements written <a/>
	CharRef      int    `json:"charRef"`     // percent of characters written as numeric references
	GtEscape     int    `json:"gtEscape"`    // percent of '>' written as &gt;
	CDATA        int    `json:"cdata"`       // percent of text nodes (partly) wrapped in CDATA
	Comments     int    `json:"comments"`    // percent of text nodes / element gaps that get a comment (only if AllowComments)
	Decl         int    `json:"decl"`        // 0 none; 1..4 XML declaration variants; 5, 6 declare ISO-8859-1 / US-ASCII over a pure-ASCII serialisation
	BOM          bool   `json:"bom"`
	OuterWS      bool   `json:"outerWS"`
	OuterComment bool   `json:"outerComment"`

	AllowComments bool `json:"allowComments"` // comments are invisible to the signature(s) in this document
}

// Plain reports whether the layout makes no non-default choice.
func (l Layout) Plain() bool {
	return l.AttrShuffle == 0 && l.SingleQuote == 0 && l.TagSpace == 0 && l.CharRef == 0 && l.GtEscape == 0 &&
		l.CDATA == 0 && (l.Comments == 0 || !l.AllowComments) && l.Decl == 0 && !l.BOM && !l.OuterWS && !l.OuterComment
}

type lrng struct{ s uint64 }

func (r *lrng) next() uint64 {
	r.s += 0x9e3779b97f4a7c15
	z := r.s
	z = (z ^ (z >> 30)) * 0xbf58476d1ce4e5b9
	z = (z ^ (z >> 27)) * 0x94d049bb133111eb
	return z ^ (z >> 31)
}
func (r *lrng) pct(p int) bool { return p > 0 && int(r.next()%100) < p }
func (r *lrng) n(n int) int    { return int(r.next() % uint64(n)) }

// LayoutStats counts which features a serialisation actually used.
type LayoutStats struct {
	Shuffled, SingleQuoted, TagSpaces, CharRefs, CDATAs, Comments, SelfClosed, ForeignDecl int
}

type lwriter struct {
	l  Layout
	r  *lrng
	b  bytes.Buffer
	st LayoutStats

	ascii bool // write every non-ASCII character as a reference
}

// Serialize writes root as a complete document under the layout.
func Serialize(root *etree.Element, l Layout) []byte {
	b, _ := SerializeStats(root, l)
	return b
}

func SerializeStats(root *etree.Element, l Layout) ([]byte, LayoutStats) {
	w := &lwriter{l: l, r: &lrng{s: l.Seed}}
	// Decl 5, 6: the declaration names a single-byte encoding of which the document only uses the ASCII
	// range (every other character goes out as a character reference) — the same bytes are a correct
	// serialisation under the declared encoding and under UTF-8
	w.ascii = l.Decl == 5 || l.Decl == 6
	if l.OuterWS {
		w.b.WriteString("\n")
	}
	if l.OuterComment {
		w.b.WriteString("<!-- issued by verif idp -->")
		if l.OuterWS {
			w.b.WriteString("\n")
		}
	}
	w.element(root)
	if l.OuterWS {
		w.b.WriteString("\n")
	}
	if l.OuterComment {
		w.b.WriteString("<!--end-->")
	}
	body := w.b.Bytes()
	decl := l.Decl
	if w.ascii {
		for _, c := range body {
			if c >= 0x80 { // e.g. inside a comment of the tree: fall back to a UTF-8 declaration
				decl = 1
				break
			}
		}
	}
	var head bytes.Buffer
	if l.BOM && decl < 5 {
		head.WriteString("\xEF\xBB\xBF")
	}
	switch decl {
	case 1:
		head.WriteString(`<?xml version="1.0" encoding="UTF-8"?>`)
	case 2:
		head.WriteString(`<?xml version='1.0' encoding='utf-8'?>`)
	case 3:
		head.WriteString(`<?xml version="1.0" encoding="UTF-8" standalone="yes"?>`)
	case 4:
		head.WriteString(`<?xml version="1.0"?>`)
	case 5:
		head.WriteString(`<?xml version="1.0" encoding="ISO-8859-1"?>`)
		w.st.ForeignDecl++
	case 6:
		head.WriteString(`<?xml version="1.0" encoding="US-ASCII"?>`)
		w.st.ForeignDecl++
	}
	return append(head.Bytes(), body...), w.st
}

func isASCII(s string) bool {
	for i := 0; i < len(s); i++ {
		if s[i] >= 0x80 {
			return false
		}
	}
	return true
}

func qname(space, tag string) string {
	if space == "" {
		return tag
	}
	return space + ":" + tag
}

var wsChoices = []string{" ", "  ", "\n", "\t", " \n  ", "\r\n"}

func (w *lwriter) ws(mandatory bool) {
	if w.r.pct(w.l.TagSpace) {
		w.st.TagSpaces++
		w.b.WriteString(wsChoices[w.r.n(len(wsChoices))])
		return
	}
	if mandatory {
		w.b.WriteByte(' ')
	}
}

func (w *lwriter) comment() {
	w.st.Comments++
	c := []string{"<!---->", "<!-- c -->", "<!--<x a='1'>&amp;-->", "<!--]]>-->", "<!-- admin@evil -->"}
	w.b.WriteString(c[w.r.n(len(c))])
}

func (w *lwriter) element(el *etree.Element) {
	name := qname(el.Space, el.Tag)
	w.b.WriteByte('<')
	w.b.WriteString(name)
	attrs := append([]etree.Attr(nil), el.Attr...)
	if len(attrs) > 1 && w.r.pct(w.l.AttrShuffle) {
		w.st.Shuffled++
		for i := len(attrs) - 1; i > 0; i-- {
			j := w.r.n(i + 1)
			attrs[i], attrs[j] = attrs[j], attrs[i]
		}
	}
	for _, a := range attrs {
		w.ws(true)
		w.b.WriteString(qname(a.Space, a.Key))
		w.ws(false)
		w.b.WriteByte('=')
		w.ws(false)
		q := byte('"')
		if w.r.pct(w.l.SingleQuote) {
			q = '\''
			w.st.SingleQuoted++
		}
		w.b.WriteByte(q)
		w.attrValue(a.Value, q)
		w.b.WriteByte(q)
	}
	if len(el.Child) == 0 {
		if w.r.pct(w.l.SelfClose) {
			w.st.SelfClosed++
			w.ws(false)
			w.b.WriteString("/>")
			return
		}
		w.ws(false)
		w.b.WriteString("></")
		w.b.WriteString(name)
		w.ws(false)
		w.b.WriteByte('>')
		return
	}
	w.ws(false)
	w.b.WriteByte('>')
	for _, c := range el.Child {
		switch t := c.(type) {
		case *etree.Element:
			if w.l.AllowComments && w.r.pct(w.l.Comments) {
				w.comment()
			}
			w.element(t)
		case *etree.CharData:
			w.text(t.Data)
		case *etree.Comment:
			w.b.WriteString("<!--" + t.Data + "-->")
		case *etree.ProcInst:
			w.b.WriteString("<?" + t.Target + " " + t.Inst + "?>")
		case *etree.Directive:
			w.b.WriteString("<!" + t.Data + ">")
		}
	}
	w.b.WriteString("</")
	w.b.WriteString(name)
	w.ws(false)
	w.b.WriteByte('>')
}

func (w *lwriter) ref(r rune) {
	w.st.CharRefs++
	switch w.r.n(3) {
	case 0:
		fmt.Fprintf(&w.b, "&#%d;", r)
	case 1:
		fmt.Fprintf(&w.b, "&#x%X;", r)
	default:
		fmt.Fprintf(&w.b, "&#x%04x;", r)
	}
}

func (w *lwriter) attrValue(v string, q byte) {
	brackets := 0
	for _, r := range v {
		nb := 0
		switch {
		case r == '<':
			w.b.WriteString("&lt;")
		case r == '&':
			w.b.WriteString("&amp;")
		case r == rune(q):
			if q == '"' {
				w.b.WriteString("&quot;")
			} else {
				w.b.WriteString("&apos;")
			}
		case r == '\t' || r == '\n' || r == '\r':
			// a conforming parser normalises literal white space in attribute
			// values, so a faithful writer must use references
			fmt.Fprintf(&w.b, "&#x%X;", r)
		case r == '>' && (brackets >= 2 || w.r.pct(w.l.GtEscape)):
			// XML allows a literal "]]>" in attribute values but Go's encoding/xml
			// (trusted base of the library) rejects it, so the writer never emits it
			w.b.WriteString("&gt;")
		case r == ']' && !w.r.pct(w.l.CharRef):
			w.b.WriteByte(']')
			nb = brackets + 1
		case w.r.pct(w.l.CharRef) || (w.ascii && r >= 0x80):
			w.ref(r)
		default:
			w.b.WriteRune(r)
		}
		brackets = nb
	}
}

func (w *lwriter) text(s string) {
	if s == "" {
		return
	}
	// optional CDATA for a prefix/suffix/whole of the node
	if w.r.pct(w.l.CDATA) && !strings.Contains(s, "\r") {
		rs := []rune(s)
		cut1 := w.r.n(len(rs) + 1)
		cut2 := cut1 + w.r.n(len(rs)-cut1+1)
		if w.r.n(2) == 0 {
			cut1, cut2 = 0, len(rs)
		}
		mid := string(rs[cut1:cut2])
		// "]]>" must not appear inside the section, and the text before must not end in "]]" followed by our ">"... (handled by escaping)
		if mid != "" && !strings.Contains(mid, "]]>") && !(w.ascii && !isASCII(mid)) {
			w.escText(string(rs[:cut1]))
			w.st.CDATAs++
			w.b.WriteString("<![CDATA[" + mid + "]]>")
			if w.l.AllowComments && w.r.pct(w.l.Comments) {
				w.comment()
			}
			w.escText(string(rs[cut2:]))
			return
		}
	}
	w.escText(s)
}

func (w *lwriter) escText(s string) {
	if s == "" {
		return
	}
	rs := []rune(s)
	commentAt := -1
	if w.l.AllowComments && w.r.pct(w.l.Comments) {
		commentAt = w.r.n(len(rs) + 1)
	}
	brackets := 0 // number of consecutive ']' just written literally
	for i, r := range rs {
		if i == commentAt {
			w.comment()
			brackets = 0
		}
		switch {
		case r == '<':
			w.b.WriteString("&lt;")
			brackets = 0
		case r == '&':
			w.b.WriteString("&amp;")
			brackets = 0
		case r == '\r':
			w.b.WriteString("&#xD;")
			brackets = 0
		case r == '>':
			if brackets >= 2 || w.r.pct(w.l.GtEscape) {
				w.b.WriteString("&gt;")
			} else {
				w.b.WriteByte('>')
			}
			brackets = 0
		case r == ']':
			if w.r.pct(w.l.CharRef) {
				w.ref(r)
				brackets = 0
			} else {
				w.b.WriteByte(']')
				brackets++
			}
		case w.r.pct(w.l.CharRef) || (w.ascii && r >= 0x80):
			w.ref(r)
			brackets = 0
		default:
			w.b.WriteRune(r)
			brackets = 0
		}
	}
	if commentAt == len(rs) {
		w.comment()
	}
}
