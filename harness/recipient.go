package harness

import (
	"bytes"
	"crypto"
	"crypto/ecdsa"
	"crypto/rsa"
	"crypto/x509"
	"encoding/base64"
	"fmt"
	"math/big"

	"github.com/beevik/etree"
	dsig "github.com/russellhaering/goxmldsig"
	"github.com/russellhaering/goxmldsig/etreeutils"
)

// ConformingNormalize rewrites serialized XML the way a conforming XML 1.0
// processor reads it, for the two rules Go's encoding/xml does not apply on its
// own: attribute-value normalisation (literal TAB / LF / CR inside an attribute
// value become spaces; section 3.3.3) — line ends (CRLF / CR -> LF, section
// 2.11) are applied by encoding/xml itself. Character references are left
// alone, which is exactly how a faithful producer protects such characters.
func ConformingNormalize(xml []byte) []byte {
	out := make([]byte, 0, len(xml))
	i := 0
	n := len(xml)
	for i < n {
		switch {
		case bytes.HasPrefix(xml[i:], []byte("<!--")):
			j := bytes.Index(xml[i+4:], []byte("-->"))
			if j < 0 {
				return append(out, xml[i:]...)
			}
			out = append(out, xml[i:i+4+j+3]...)
			i += 4 + j + 3
		case bytes.HasPrefix(xml[i:], []byte("<![CDATA[")):
			j := bytes.Index(xml[i:], []byte("]]>"))
			if j < 0 {
				return append(out, xml[i:]...)
			}
			out = append(out, xml[i:i+j+3]...)
			i += j + 3
		case bytes.HasPrefix(xml[i:], []byte("<?")):
			j := bytes.Index(xml[i:], []byte("?>"))
			if j < 0 {
				return append(out, xml[i:]...)
			}
			out = append(out, xml[i:i+j+2]...)
			i += j + 2
		case xml[i] == '<':
			// a start / end / empty tag: copy until '>' outside quotes, normalising inside quotes
			var q byte
			for i < n {
				c := xml[i]
				if q == 0 {
					out = append(out, c)
					i++
					if c == '"' || c == '\'' {
						q = c
					} else if c == '>' {
						break
					}
					continue
				}
				if c == q {
					q = 0
					out = append(out, c)
					i++
					continue
				}
				switch c {
				case '>':
					// legal in an attribute value (even as part of "]]>"), but Go's
					// encoding/xml — the engine of this recipient model — rejects a
					// literal "]]>" there; the reference is equivalent for any parser
					out = append(out, "&gt;"...)
				case '\t', '\n':
					out = append(out, ' ')
				case '\r':
					out = append(out, ' ')
					if i+1 < n && xml[i+1] == '\n' {
						i++ // CRLF is one line end, hence one space
					}
				default:
					out = append(out, c)
				}
				i++
			}
		default:
			out = append(out, xml[i])
			i++
		}
	}
	return out
}

// RecipientParse parses serialized XML as a conforming recipient.
func RecipientParse(xml []byte) (*etree.Document, error) {
	doc := etree.NewDocument()
	if err := doc.ReadFromBytes(ConformingNormalize(xml)); err != nil {
		return nil, err
	}
	if doc.Root() == nil {
		return nil, fmt.Errorf("no root element")
	}
	return doc, nil
}

// SigFacts is what the recipient sees in the (single) enveloped signature of a message.
type SigFacts struct {
	Count          int
	Index          int    // index of the Signature among the root's child elements
	PrevTag        string // local name of the preceding sibling element
	SigMethod      string
	C14NMethod     string
	TransformC14N  string
	Transforms     []string
	DigestMethod   string
	ReferenceURI   string
	EmbeddedCerts  [][]byte
	VerifiedDSIG   error // goxmldsig validation with only the expected certificate trusted
	VerifiedCrypto error // direct crypto verification of SignatureValue over canonical SignedInfo
	VerifiedDigest error // own computation of the Reference digest over the message minus its Signature
}

func childByTag(e *etree.Element, tag string) *etree.Element {
	for _, c := range e.ChildElements() {
		if c.Tag == tag {
			return c
		}
	}
	return nil
}

// InspectSignature looks at root's enveloped signature as a recipient that trusts exactly cert.
func InspectSignature(root *etree.Element, cert *x509.Certificate, at *dsig.Clock) SigFacts {
	var f SigFacts
	kids := root.ChildElements()
	var sig *etree.Element
	for i, k := range kids {
		if k.Tag == "Signature" {
			f.Count++
			if sig == nil {
				sig = k
				f.Index = i
				if i > 0 {
					f.PrevTag = kids[i-1].Tag
				}
			}
		}
	}
	// signatures anywhere else also count
	for _, e := range allElems(root) {
		if e.Tag == "Signature" && e.Parent() != root {
			f.Count++
		}
	}
	if sig == nil {
		f.VerifiedDSIG = fmt.Errorf("no signature child")
		f.VerifiedCrypto = f.VerifiedDSIG
		return f
	}
	si := childByTag(sig, "SignedInfo")
	if si != nil {
		if m := childByTag(si, "SignatureMethod"); m != nil {
			f.SigMethod = m.SelectAttrValue("Algorithm", "")
		}
		if m := childByTag(si, "CanonicalizationMethod"); m != nil {
			f.C14NMethod = m.SelectAttrValue("Algorithm", "")
		}
		if r := childByTag(si, "Reference"); r != nil {
			f.ReferenceURI = r.SelectAttrValue("URI", "")
			if ts := childByTag(r, "Transforms"); ts != nil {
				for _, t := range ts.ChildElements() {
					a := t.SelectAttrValue("Algorithm", "")
					f.Transforms = append(f.Transforms, a)
					if a != string(dsig.EnvelopedSignatureAltorithmId) {
						f.TransformC14N = a
					}
				}
			}
			if d := childByTag(r, "DigestMethod"); d != nil {
				f.DigestMethod = d.SelectAttrValue("Algorithm", "")
			}
		}
	}
	if ki := childByTag(sig, "KeyInfo"); ki != nil {
		if xd := childByTag(ki, "X509Data"); xd != nil {
			for _, c := range xd.ChildElements() {
				if c.Tag == "X509Certificate" {
					b, _ := base64.StdEncoding.DecodeString(c.Text())
					f.EmbeddedCerts = append(f.EmbeddedCerts, b)
				}
			}
		}
	}
	// (1) the library's sibling validator, trusting only the expected certificate
	vc := dsig.NewDefaultValidationContext(&dsig.MemoryX509CertificateStore{Roots: []*x509.Certificate{cert}})
	vc.Clock = at
	_, f.VerifiedDSIG = vc.Validate(root)
	// (2) direct verification of SignatureValue over the canonical SignedInfo with crypto/*
	f.VerifiedCrypto = verifySignedInfo(sig, si, cert)
	f.VerifiedDigest = verifyReferenceDigest(root, sig, si)
	return f
}

var digestHashes = map[string]crypto.Hash{
	"http://www.w3.org/2000/09/xmldsig#sha1":        crypto.SHA1,
	"http://www.w3.org/2001/04/xmlenc#sha256":       crypto.SHA256,
	"http://www.w3.org/2001/04/xmldsig-more#sha384": crypto.SHA384,
	"http://www.w3.org/2001/04/xmlenc#sha512":       crypto.SHA512,
}

// verifyReferenceDigest recomputes the enveloped-signature digest: the message without its
// Signature child, canonicalised with the declared transform, hashed with the declared method.
func verifyReferenceDigest(root, sig, si *etree.Element) (err error) {
	if si == nil {
		return fmt.Errorf("no SignedInfo")
	}
	ref := childByTag(si, "Reference")
	if ref == nil {
		return fmt.Errorf("no Reference")
	}
	dm, dv := childByTag(ref, "DigestMethod"), childByTag(ref, "DigestValue")
	if dm == nil || dv == nil {
		return fmt.Errorf("no DigestMethod / DigestValue")
	}
	hsh, ok := digestHashes[dm.SelectAttrValue("Algorithm", "")]
	if !ok {
		return fmt.Errorf("unknown digest method %q", dm.SelectAttrValue("Algorithm", ""))
	}
	want, err := base64.StdEncoding.DecodeString(dv.Text())
	if err != nil {
		return err
	}
	c14n := ""
	if ts := childByTag(ref, "Transforms"); ts != nil {
		for _, t := range ts.ChildElements() {
			if a := t.SelectAttrValue("Algorithm", ""); a != string(dsig.EnvelopedSignatureAltorithmId) {
				c14n = a
			}
		}
	}
	cp := root.Copy()
	for _, k := range cp.ChildElements() {
		if k.Tag == "Signature" {
			cp.RemoveChild(k)
			break
		}
	}
	var canon []byte
	func() {
		defer func() {
			if r := recover(); r != nil {
				err = fmt.Errorf("canonicaliser: %v", r)
			}
		}()
		canon, err = CanonicalizerFor(c14n).Canonicalize(cp)
	}()
	if err != nil {
		return err
	}
	hh := hsh.New()
	hh.Write(canon)
	if !bytes.Equal(hh.Sum(nil), want) {
		return fmt.Errorf("digest mismatch")
	}
	return nil
}

func hashFor(method string) (crypto.Hash, bool) {
	switch method {
	case dsig.RSASHA1SignatureMethod, dsig.ECDSASHA1SignatureMethod:
		return crypto.SHA1, true
	case dsig.RSASHA256SignatureMethod, dsig.ECDSASHA256SignatureMethod:
		return crypto.SHA256, true
	case dsig.RSASHA384SignatureMethod, dsig.ECDSASHA384SignatureMethod:
		return crypto.SHA384, true
	case dsig.RSASHA512SignatureMethod, dsig.ECDSASHA512SignatureMethod:
		return crypto.SHA512, true
	}
	return 0, false
}

func verifySignedInfo(sig, si *etree.Element, cert *x509.Certificate) error {
	if si == nil {
		return fmt.Errorf("no SignedInfo")
	}
	sv := childByTag(sig, "SignatureValue")
	if sv == nil {
		return fmt.Errorf("no SignatureValue")
	}
	raw, err := base64.StdEncoding.DecodeString(sv.Text())
	if err != nil {
		return err
	}
	method, c14n := "", ""
	if m := childByTag(si, "SignatureMethod"); m != nil {
		method = m.SelectAttrValue("Algorithm", "")
	}
	if m := childByTag(si, "CanonicalizationMethod"); m != nil {
		c14n = m.SelectAttrValue("Algorithm", "")
	}
	hsh, ok := hashFor(method)
	if !ok {
		return fmt.Errorf("unknown signature method %q", method)
	}
	ctx, err := etreeutils.NSBuildParentContext(si)
	if err != nil {
		return err
	}
	det, err := etreeutils.NSDetatch(ctx, si)
	if err != nil {
		return err
	}
	var canon []byte
	func() {
		defer func() {
			if r := recover(); r != nil {
				err = fmt.Errorf("canonicaliser: %v", r)
			}
		}()
		canon, err = CanonicalizerFor(c14n).Canonicalize(det)
	}()
	if err != nil {
		return err
	}
	hh := hsh.New()
	hh.Write(canon)
	digest := hh.Sum(nil)
	switch pub := cert.PublicKey.(type) {
	case *rsa.PublicKey:
		return rsa.VerifyPKCS1v15(pub, hsh, digest, raw)
	case *ecdsa.PublicKey:
		return verifyECDSA(pub, digest, raw)
	}
	return fmt.Errorf("unsupported key")
}

// verifyECDSA accepts the ASN.1 encoding (what Go signers and goxmldsig emit) or the raw r||s form of XML-DSig.
func verifyECDSA(pub *ecdsa.PublicKey, digest, sig []byte) error {
	if ecdsa.VerifyASN1(pub, digest, sig) {
		return nil
	}
	if n := len(sig); n%2 == 0 && n > 0 {
		r := new(big.Int).SetBytes(sig[:n/2])
		s := new(big.Int).SetBytes(sig[n/2:])
		if ecdsa.Verify(pub, digest, r, s) {
			return nil
		}
	}
	return fmt.Errorf("ecdsa verification failed")
}

// VerifyDetached verifies a raw signature over msg (redirect binding) with the certificate's key.
func VerifyDetached(cert *x509.Certificate, sigAlg string, msg, sig []byte) error {
	hsh, ok := hashFor(sigAlg)
	if !ok {
		return fmt.Errorf("unknown SigAlg %q", sigAlg)
	}
	hh := hsh.New()
	hh.Write(msg)
	digest := hh.Sum(nil)
	switch pub := cert.PublicKey.(type) {
	case *rsa.PublicKey:
		return rsa.VerifyPKCS1v15(pub, hsh, digest, sig)
	case *ecdsa.PublicKey:
		return verifyECDSA(pub, digest, sig)
	}
	return fmt.Errorf("unsupported key")
}
