package harness

import (
	"encoding/json"
	"fmt"
	"reflect"
	"strconv"
	"time"

	"github.com/russellhaering/gosaml2/types"
)

// Views are plain comparable projections. One is computed from what the library
// returned, the other from the model the message was rendered from; the oracle
// compares them with reflect.DeepEqual.

type AttrView struct {
	Name, FriendlyName, NameFormat string
	Values                         []string
}

type AssertionView struct {
	ID, Version  string
	IssueInstant int64 // UnixNano; minInt64 when zero time
	HasIssuer    bool
	Issuer       string

	HasSubject, HasNameID bool
	NameID                string
	HasSC                 bool
	Method                string
	HasSCD                bool
	Recipient, SCNOOA     string
	SCInResponseTo        string

	HasConditions           bool
	NotBefore, NotOnOrAfter string
	Audiences               [][]string
	OneTimeUse              bool
	HasProxy                bool
	ProxyCount              int
	ProxyAudience           []string

	HasAttrStmt bool
	Attrs       []AttrView

	HasAuthn                        bool
	SessionIndex                    string
	HasAuthnInstant, HasSessionNOOA bool
	AuthnInstant, SessionNOOA       int64
	HasAuthnContext, HasClassRef    bool
	ClassRef                        string
}

type ResponseView struct {
	ID, InResponseTo, Destination, Version string
	IssueInstant                           int64
	HasIssuer                              bool
	Issuer                                 string
	HasStatus, HasCode                     bool
	StatusCode                             string
}

const zeroInstant = int64(-1 << 63)

func instant(t time.Time) int64 {
	if t.IsZero() {
		return zeroInstant
	}
	return t.UnixNano()
}

func parseInstant(o Opt) int64 {
	if !o.Set {
		return zeroInstant
	}
	t, err := time.Parse(time.RFC3339, o.V)
	if err != nil {
		return zeroInstant
	}
	return instant(t)
}

func strs(n int) []string {
	if n == 0 {
		return nil
	}
	return make([]string, 0, n)
}

// ViewOfAssertion projects a returned assertion.
func ViewOfAssertion(a *types.Assertion) AssertionView {
	v := AssertionView{ID: a.ID, Version: a.Version, IssueInstant: instant(a.IssueInstant)}
	if a.Issuer != nil {
		v.HasIssuer, v.Issuer = true, a.Issuer.Value
	}
	if s := a.Subject; s != nil {
		v.HasSubject = true
		if s.NameID != nil {
			v.HasNameID, v.NameID = true, s.NameID.Value
		}
		if sc := s.SubjectConfirmation; sc != nil {
			v.HasSC, v.Method = true, sc.Method
			if d := sc.SubjectConfirmationData; d != nil {
				v.HasSCD, v.Recipient, v.SCNOOA, v.SCInResponseTo = true, d.Recipient, d.NotOnOrAfter, d.InResponseTo
			}
		}
	}
	if c := a.Conditions; c != nil {
		v.HasConditions, v.NotBefore, v.NotOnOrAfter = true, c.NotBefore, c.NotOnOrAfter
		for _, ar := range c.AudienceRestrictions {
			auds := []string{}
			for _, au := range ar.Audiences {
				auds = append(auds, au.Value)
			}
			v.Audiences = append(v.Audiences, auds)
		}
		v.OneTimeUse = c.OneTimeUse != nil
		if p := c.ProxyRestriction; p != nil {
			v.HasProxy, v.ProxyCount = true, p.Count
			for _, au := range p.Audience {
				v.ProxyAudience = append(v.ProxyAudience, au.Value)
			}
		}
	}
	if st := a.AttributeStatement; st != nil {
		v.HasAttrStmt = true
		for _, at := range st.Attributes {
			av := AttrView{Name: at.Name, FriendlyName: at.FriendlyName, NameFormat: at.NameFormat}
			for _, x := range at.Values {
				av.Values = append(av.Values, x.Value)
			}
			v.Attrs = append(v.Attrs, av)
		}
	}
	if as := a.AuthnStatement; as != nil {
		v.HasAuthn, v.SessionIndex = true, as.SessionIndex
		if as.AuthnInstant != nil {
			v.HasAuthnInstant, v.AuthnInstant = true, instant(*as.AuthnInstant)
		}
		if as.SessionNotOnOrAfter != nil {
			v.HasSessionNOOA, v.SessionNOOA = true, instant(*as.SessionNotOnOrAfter)
		}
		if ac := as.AuthnContext; ac != nil {
			v.HasAuthnContext = true
			if ac.AuthnContextClassRef != nil {
				v.HasClassRef, v.ClassRef = true, ac.AuthnContextClassRef.Value
			}
		}
	}
	return v
}

// ViewOfModel projects an assertion model the same way (what a faithful reader must obtain).
func (a *AssertionModel) View() AssertionView {
	v := AssertionView{ID: a.ID.Str(), Version: a.Version.Str(), IssueInstant: parseInstant(a.IssueInstant)}
	v.HasIssuer, v.Issuer = a.Issuer.Set, a.Issuer.Str()
	if a.HasSubject {
		v.HasSubject = true
		v.HasNameID, v.NameID = a.NameID.Set, a.NameID.Str()
		if a.HasSC {
			v.HasSC, v.Method = true, a.SCMethod.Str()
			if a.HasSCD {
				v.HasSCD, v.Recipient, v.SCNOOA, v.SCInResponseTo = true, a.Recipient.Str(), a.SCNotOnOrAfter.Str(), a.SCInResponseTo.Str()
			}
		}
	}
	if a.HasConditions {
		v.HasConditions, v.NotBefore, v.NotOnOrAfter = true, a.NotBefore.Str(), a.NotOnOrAfter.Str()
		for _, ar := range a.Audiences {
			auds := []string{}
			auds = append(auds, ar...)
			v.Audiences = append(v.Audiences, auds)
		}
		v.OneTimeUse = a.OneTimeUse
		if a.HasProxy {
			v.HasProxy = true
			if a.ProxyCount.Set {
				n, _ := strconv.Atoi(a.ProxyCount.V)
				v.ProxyCount = n
			}
			v.ProxyAudience = append(v.ProxyAudience, a.ProxyAudience...)
		}
	}
	if a.HasAttrStmt {
		v.HasAttrStmt = true
		for _, at := range a.Attrs {
			av := AttrView{Name: at.Name, FriendlyName: at.FriendlyName.Str(), NameFormat: at.NameFormat.Str()}
			av.Values = append(av.Values, at.Values...)
			v.Attrs = append(v.Attrs, av)
		}
	}
	if a.HasAuthn {
		v.HasAuthn, v.SessionIndex = true, a.SessionIndex.Str()
		if a.AuthnInstant.Set {
			v.HasAuthnInstant, v.AuthnInstant = true, parseInstant(a.AuthnInstant)
		}
		if a.SessionNotOnOrAfter.Set {
			v.HasSessionNOOA, v.SessionNOOA = true, parseInstant(a.SessionNotOnOrAfter)
		}
		if a.ClassRef.Set {
			v.HasAuthnContext, v.HasClassRef, v.ClassRef = true, true, a.ClassRef.V
		}
	}
	return v
}

func ViewOfResponse(r *types.Response) ResponseView {
	v := ResponseView{ID: r.ID, InResponseTo: r.InResponseTo, Destination: r.Destination, Version: r.Version, IssueInstant: instant(r.IssueInstant)}
	if r.Issuer != nil {
		v.HasIssuer, v.Issuer = true, r.Issuer.Value
	}
	if r.Status != nil {
		v.HasStatus = true
		if r.Status.StatusCode != nil {
			v.HasCode, v.StatusCode = true, r.Status.StatusCode.Value
		}
	}
	return v
}

func (m *ResponseModel) View() ResponseView {
	v := ResponseView{ID: m.ID.Str(), InResponseTo: m.InResponseTo.Str(), Destination: m.Destination.Str(), Version: m.Version.Str(), IssueInstant: parseInstant(m.IssueInstant)}
	v.HasIssuer, v.Issuer = m.Issuer.Set, m.Issuer.Str()
	if m.HasStatus {
		v.HasStatus = true
		if m.HasCode {
			v.HasCode, v.StatusCode = true, m.StatusCode.Str()
		}
	}
	return v
}

// LogoutView covers both logout kinds.
type LogoutView struct {
	Kind                                   string
	ID, InResponseTo, Destination, Version string
	IssueInstant                           int64
	HasIssuer                              bool
	Issuer                                 string
	HasNameID                              bool
	NameID                                 string
	HasStatus, HasCode                     bool
	StatusCode                             string
}

func (m *LogoutModel) View() LogoutView {
	v := LogoutView{Kind: m.Kind, ID: m.ID.Str(), Destination: m.Destination.Str(), Version: m.Version.Str(), IssueInstant: parseInstant(m.IssueInstant)}
	v.HasIssuer, v.Issuer = m.Issuer.Set, m.Issuer.Str()
	if m.Kind == "LogoutRequest" {
		v.HasNameID, v.NameID = m.NameID.Set, m.NameID.Str()
	} else {
		v.InResponseTo = m.InResponseTo.Str()
		if m.HasStatus {
			v.HasStatus = true
			if m.HasCode {
				v.HasCode, v.StatusCode = true, m.StatusCode.Str()
			}
		}
	}
	return v
}

func ViewOfLogoutResponse(r *types.LogoutResponse) LogoutView {
	v := LogoutView{Kind: "LogoutResponse", ID: r.ID, InResponseTo: r.InResponseTo, Destination: r.Destination, Version: r.Version, IssueInstant: instant(r.IssueInstant)}
	if r.Issuer != nil {
		v.HasIssuer, v.Issuer = true, r.Issuer.Value
	}
	if r.Status != nil {
		v.HasStatus = true
		if r.Status.StatusCode != nil {
			v.HasCode, v.StatusCode = true, r.Status.StatusCode.Value
		}
	}
	return v
}

// Diff returns "" when equal, else a short description of the first difference.
func Diff(want, got interface{}) string {
	if reflect.DeepEqual(want, got) {
		return ""
	}
	wv, gv := reflect.ValueOf(want), reflect.ValueOf(got)
	if wv.Kind() == reflect.Struct && wv.Type() == gv.Type() {
		for i := 0; i < wv.NumField(); i++ {
			if !reflect.DeepEqual(wv.Field(i).Interface(), gv.Field(i).Interface()) {
				return fmt.Sprintf("%s: want %s got %s", wv.Type().Field(i).Name, js(wv.Field(i).Interface()), js(gv.Field(i).Interface()))
			}
		}
	}
	return fmt.Sprintf("want %s got %s", js(want), js(got))
}

func js(v interface{}) string {
	b, _ := json.Marshal(v)
	if len(b) > 300 {
		b = append(b[:300], "..."...)
	}
	return string(b)
}
