package harness

import (
	"strconv"
	"time"

	"github.com/beevik/etree"
)

const (
	NSProtocol  = "urn:oasis:names:tc:SAML:2.0:protocol"
	NSAssertion = "urn:oasis:names:tc:SAML:2.0:assertion"
	NSDsig      = "http://www.w3.org/2000/09/xmldsig#"
	NSXenc      = "http://www.w3.org/2001/04/xmlenc#"
	NSXSI       = "http://www.w3.org/2001/XMLSchema-instance"
	NSXS        = "http://www.w3.org/2001/XMLSchema"

	StatusSuccess = "urn:oasis:names:tc:SAML:2.0:status:Success"
	Bearer        = "urn:oasis:names:tc:SAML:2.0:cm:bearer"
)

// Opt is an optional string (attribute or simple element). JSON friendly.
type Opt struct {
	Set bool   `json:"s"`
	V   string `json:"v,omitempty"`
}

func S(v string) Opt { return Opt{Set: true, V: v} }

var None = Opt{}

// Str is the value encoding/xml would deliver for it: "" when absent.
func (o Opt) Str() string {
	if o.Set {
		return o.V
	}
	return ""
}

type AttrModel struct {
	Name         string   `json:"name"`
	FriendlyName Opt      `json:"friendly"`
	NameFormat   Opt      `json:"format"`
	Values       []string `json:"values"`
	XSIType      bool     `json:"xsi,omitempty"` // decorate values with xsi:type="xs:string"
}

type AssertionModel struct {
	ID           Opt `json:"id"`
	Version      Opt `json:"version"`
	IssueInstant Opt `json:"issueInstant"`
	Issuer       Opt `json:"issuer"`
	IssuerFormat Opt `json:"issuerFormat"` // Format attribute of the Issuer element

	HasSubject     bool `json:"hasSubject"`
	NameID         Opt  `json:"nameID"`
	NameIDFormat   Opt  `json:"nameIDFormat"` // Format attribute of the NameID
	HasSC          bool `json:"hasSC"`
	SCMethod       Opt  `json:"scMethod"`
	HasSCD         bool `json:"hasSCD"`
	Recipient      Opt  `json:"recipient"`
	SCNotOnOrAfter Opt  `json:"scNotOnOrAfter"`
	SCInResponseTo Opt  `json:"scInResponseTo"`
	ExtraSC        int  `json:"extraSC,omitempty"` // additional non-bearer confirmations AFTER the first (ignored by encoding/xml? no: last wins) -- not used for genuine messages

	HasConditions bool       `json:"hasConditions"`
	NotBefore     Opt        `json:"notBefore"`
	NotOnOrAfter  Opt        `json:"notOnOrAfter"`
	Audiences     [][]string `json:"audiences"` // one entry per AudienceRestriction
	OneTimeUse    bool       `json:"oneTimeUse"`
	HasProxy      bool       `json:"hasProxy"`
	ProxyCount    Opt        `json:"proxyCount"`
	ProxyAudience []string   `json:"proxyAudience"`
	// ForeignCond: look-alike elements of a FOREIGN namespace inside Conditions (bit 1: an x:Audience first in the
	// ProxyRestriction, 2: an x:Audience first in the first AudienceRestriction, 4: an x:OneTimeUse, 8: an
	// x:ProxyRestriction Count="9", 16: an x:AudienceRestriction naming urn:foreign). They are not SAML conditions:
	// a message carrying them is refused or they are ignored — they never show in what is reported.
	ForeignCond int `json:"foreignCond,omitempty"`

	HasAttrStmt bool        `json:"hasAttrStmt"`
	Attrs       []AttrModel `json:"attrs"`
	// Advice: an embedded (evidence) assertion inside saml:Advice — part of what the IdP signs, never an
	// assertion of the Response itself
	Advice *AssertionModel `json:"advice,omitempty"`

	AttrFirst bool `json:"attrFirst,omitempty"` // AttributeStatement written before AuthnStatement (the schema allows either order)

	HasAuthn            bool `json:"hasAuthn"`
	SessionIndex        Opt  `json:"sessionIndex"`
	AuthnInstant        Opt  `json:"authnInstant"`
	SessionNotOnOrAfter Opt  `json:"sessionNotOnOrAfter"`
	ClassRef            Opt  `json:"classRef"`
}

type ResponseModel struct {
	ID           Opt      `json:"id"`
	InResponseTo Opt      `json:"inResponseTo"`
	Destination  Opt      `json:"destination"`
	Version      Opt      `json:"version"`
	IssueInstant Opt      `json:"issueInstant"`
	Issuer       Opt      `json:"issuer"`
	IssuerFormat Opt      `json:"issuerFormat"`
	HasStatus    bool     `json:"hasStatus"`
	HasCode      bool     `json:"hasCode"`
	StatusCode   Opt      `json:"statusCode"`
	SubCodes     []string `json:"subCodes,omitempty"` // subordinate StatusCode values, each nested in the previous one
	StatusMsg    Opt      `json:"statusMessage"`
	// ExtAssertion: an assertion embedded in samlp:Extensions (after the Issuer): not an assertion of the Response
	ExtAssertion *AssertionModel `json:"extAssertion,omitempty"`

	Assertions []AssertionModel `json:"assertions"`
}

// LogoutModel covers LogoutRequest and LogoutResponse.
type LogoutModel struct {
	Kind         string   `json:"kind"` // "LogoutRequest" | "LogoutResponse"
	ID           Opt      `json:"id"`
	InResponseTo Opt      `json:"inResponseTo"` // response only
	Destination  Opt      `json:"destination"`
	Version      Opt      `json:"version"`
	IssueInstant Opt      `json:"issueInstant"`
	Issuer       Opt      `json:"issuer"`
	IssuerFormat Opt      `json:"issuerFormat"`
	NameID       Opt      `json:"nameID"`       // request only
	SessionIndex Opt      `json:"sessionIndex"` // request only
	HasStatus    bool     `json:"hasStatus"`    // response only
	HasCode      bool     `json:"hasCode"`
	StatusCode   Opt      `json:"statusCode"`
	SubCodes     []string `json:"subCodes,omitempty"`
	StatusMsg    Opt      `json:"statusMessage"`
}

// NSStyle chooses prefixes. Empty prefix = default namespace.
type NSStyle struct {
	P         string `json:"p"`         // protocol prefix
	A         string `json:"a"`         // assertion prefix
	Redeclare bool   `json:"redeclare"` // repeat the assertion-namespace declaration on each Assertion
	Extra     int    `json:"extra"`     // number of unused declarations on the root
	Pretty    int    `json:"pretty"`    // 0 none, 1 newline+indent between element children (applied before signing)
}

func mk(prefix, tag string) *etree.Element {
	return &etree.Element{Space: prefix, Tag: tag}
}

func declNS(el *etree.Element, prefix, uri string) {
	if prefix == "" {
		el.CreateAttr("xmlns", uri)
	} else {
		el.CreateAttr("xmlns:"+prefix, uri)
	}
}

func setOpt(el *etree.Element, key string, o Opt) {
	if o.Set {
		el.CreateAttr(key, o.V)
	}
}

// aEl creates an element of the assertion vocabulary. With the default-namespace
// style the element declares it itself when its parent is not in that namespace.
func (ns NSStyle) aEl(tag string, parentInA bool) *etree.Element {
	e := mk(ns.A, tag)
	if ns.A == "" && !parentInA {
		declNS(e, "", NSAssertion)
	}
	return e
}

func textEl(e *etree.Element, v string) *etree.Element {
	if v != "" {
		e.SetText(v)
	}
	return e
}

// BuildAssertion renders the model as an element. topLevel tells whether the
// parent is outside the assertion namespace (Response) or there is no parent.
func BuildAssertion(a *AssertionModel, ns NSStyle) *etree.Element {
	el := ns.aEl("Assertion", false)
	if ns.A != "" && ns.Redeclare {
		declNS(el, ns.A, NSAssertion)
	}
	needXSI := false
	for _, at := range a.Attrs {
		if at.XSIType {
			needXSI = true
		}
	}
	if needXSI {
		declNS(el, "xsi", NSXSI)
		declNS(el, "xs", NSXS)
	}
	setOpt(el, "ID", a.ID)
	setOpt(el, "Version", a.Version)
	setOpt(el, "IssueInstant", a.IssueInstant)
	if a.Issuer.Set {
		is := textEl(ns.aEl("Issuer", true), a.Issuer.V)
		setOpt(is, "Format", a.IssuerFormat)
		el.AddChild(is)
	}
	if a.HasSubject {
		sub := ns.aEl("Subject", true)
		el.AddChild(sub)
		if a.NameID.Set {
			n := textEl(ns.aEl("NameID", true), a.NameID.V)
			setOpt(n, "Format", a.NameIDFormat)
			sub.AddChild(n)
		}
		if a.HasSC {
			sc := ns.aEl("SubjectConfirmation", true)
			sub.AddChild(sc)
			setOpt(sc, "Method", a.SCMethod)
			if a.HasSCD {
				scd := ns.aEl("SubjectConfirmationData", true)
				sc.AddChild(scd)
				setOpt(scd, "NotOnOrAfter", a.SCNotOnOrAfter)
				setOpt(scd, "Recipient", a.Recipient)
				setOpt(scd, "InResponseTo", a.SCInResponseTo)
			}
		}
	}
	if a.HasConditions {
		c := ns.aEl("Conditions", true)
		el.AddChild(c)
		setOpt(c, "NotBefore", a.NotBefore)
		setOpt(c, "NotOnOrAfter", a.NotOnOrAfter)
		foreign := func(tag, text string) *etree.Element {
			e := mk("fx", tag)
			declNS(e, "fx", "urn:example:foreign:conditions")
			return textEl(e, text)
		}
		if a.ForeignCond&16 != 0 {
			r := foreign("AudienceRestriction", "")
			r.AddChild(textEl(mk("fx", "Audience"), "urn:foreign"))
			c.AddChild(r)
		}
		if a.ForeignCond&4 != 0 {
			c.AddChild(foreign("OneTimeUse", ""))
		}
		if a.ForeignCond&8 != 0 {
			p := foreign("ProxyRestriction", "")
			p.CreateAttr("Count", "9")
			c.AddChild(p)
		}
		for i, ar := range a.Audiences {
			r := ns.aEl("AudienceRestriction", true)
			c.AddChild(r)
			if i == 0 && a.ForeignCond&2 != 0 {
				r.AddChild(foreign("Audience", "urn:foreign"))
			}
			for _, v := range ar {
				r.AddChild(textEl(ns.aEl("Audience", true), v))
			}
		}
		if a.OneTimeUse {
			c.AddChild(ns.aEl("OneTimeUse", true))
		}
		if a.HasProxy {
			p := ns.aEl("ProxyRestriction", true)
			c.AddChild(p)
			setOpt(p, "Count", a.ProxyCount)
			if a.ForeignCond&1 != 0 {
				p.AddChild(foreign("Audience", "urn:foreign"))
			}
			for _, v := range a.ProxyAudience {
				p.AddChild(textEl(ns.aEl("Audience", true), v))
			}
		}
	}
	if a.Advice != nil {
		adv := ns.aEl("Advice", true)
		el.AddChild(adv)
		adv.AddChild(BuildAssertion(a.Advice, ns))
	}
	var authnEl *etree.Element
	if a.HasAuthn {
		as := ns.aEl("AuthnStatement", true)
		authnEl = as
		if !(a.AttrFirst && a.HasAttrStmt) {
			el.AddChild(as)
		}
		setOpt(as, "AuthnInstant", a.AuthnInstant)
		setOpt(as, "SessionIndex", a.SessionIndex)
		setOpt(as, "SessionNotOnOrAfter", a.SessionNotOnOrAfter)
		if a.ClassRef.Set {
			ac := ns.aEl("AuthnContext", true)
			as.AddChild(ac)
			ac.AddChild(textEl(ns.aEl("AuthnContextClassRef", true), a.ClassRef.V))
		}
	}
	if a.HasAttrStmt {
		st := ns.aEl("AttributeStatement", true)
		el.AddChild(st)
		for _, at := range a.Attrs {
			ae := ns.aEl("Attribute", true)
			st.AddChild(ae)
			ae.CreateAttr("Name", at.Name)
			setOpt(ae, "FriendlyName", at.FriendlyName)
			setOpt(ae, "NameFormat", at.NameFormat)
			for _, v := range at.Values {
				ve := textEl(ns.aEl("AttributeValue", true), v)
				if at.XSIType {
					ve.CreateAttr("xsi:type", "xs:string")
				}
				ae.AddChild(ve)
			}
		}
	}
	if a.AttrFirst && a.HasAttrStmt && authnEl != nil {
		el.AddChild(authnEl)
	}
	return el
}

var extraNS = []string{"urn:example:unused:one", "http://www.w3.org/2001/XMLSchema", "urn:example:unused:three"}

func (ns NSStyle) rootDecls(root *etree.Element) {
	declNS(root, ns.P, NSProtocol)
	if ns.A != "" {
		declNS(root, ns.A, NSAssertion)
	}
	for i := 0; i < ns.Extra && i < len(extraNS); i++ {
		declNS(root, "u"+strconv.Itoa(i), extraNS[i])
	}
}

// BuildResponse renders a Response with plaintext assertions as children.
func BuildResponse(m *ResponseModel, ns NSStyle) *etree.Element {
	root := mk(ns.P, "Response")
	ns.rootDecls(root)
	setOpt(root, "ID", m.ID)
	setOpt(root, "InResponseTo", m.InResponseTo)
	setOpt(root, "Version", m.Version)
	setOpt(root, "IssueInstant", m.IssueInstant)
	setOpt(root, "Destination", m.Destination)
	if m.Issuer.Set {
		is := textEl(ns.aEl("Issuer", false), m.Issuer.V)
		setOpt(is, "Format", m.IssuerFormat)
		root.AddChild(is)
	}
	if m.ExtAssertion != nil {
		ext := mk(ns.P, "Extensions")
		root.AddChild(ext)
		ext.AddChild(BuildAssertion(m.ExtAssertion, ns))
	}
	if m.HasStatus {
		st := mk(ns.P, "Status")
		root.AddChild(st)
		if m.HasCode {
			sc := mk(ns.P, "StatusCode")
			st.AddChild(sc)
			setOpt(sc, "Value", m.StatusCode)
			addSubCodes(sc, ns, m.SubCodes)
		}
		if m.StatusMsg.Set {
			st.AddChild(textEl(mk(ns.P, "StatusMessage"), m.StatusMsg.V))
		}
	}
	for i := range m.Assertions {
		root.AddChild(BuildAssertion(&m.Assertions[i], ns))
	}
	return root
}

// BuildLogout renders a LogoutRequest or LogoutResponse.
func BuildLogout(m *LogoutModel, ns NSStyle) *etree.Element {
	root := mk(ns.P, m.Kind)
	ns.rootDecls(root)
	setOpt(root, "ID", m.ID)
	setOpt(root, "Version", m.Version)
	setOpt(root, "IssueInstant", m.IssueInstant)
	setOpt(root, "Destination", m.Destination)
	setOpt(root, "InResponseTo", m.InResponseTo)
	if m.Issuer.Set {
		is := textEl(ns.aEl("Issuer", false), m.Issuer.V)
		setOpt(is, "Format", m.IssuerFormat)
		root.AddChild(is)
	}
	if m.Kind == "LogoutRequest" {
		if m.NameID.Set {
			root.AddChild(textEl(ns.aEl("NameID", false), m.NameID.V))
		}
		if m.SessionIndex.Set {
			root.AddChild(textEl(mk(ns.P, "SessionIndex"), m.SessionIndex.V))
		}
	} else if m.HasStatus {
		st := mk(ns.P, "Status")
		root.AddChild(st)
		if m.HasCode {
			sc := mk(ns.P, "StatusCode")
			st.AddChild(sc)
			setOpt(sc, "Value", m.StatusCode)
			addSubCodes(sc, ns, m.SubCodes)
		}
		if m.StatusMsg.Set {
			st.AddChild(textEl(mk(ns.P, "StatusMessage"), m.StatusMsg.V))
		}
	}
	return root
}

// addSubCodes nests subordinate status codes (SAML Core 3.2.2.2) under the top-level one.
func addSubCodes(top *etree.Element, ns NSStyle, subs []string) {
	cur := top
	for _, v := range subs {
		sc := mk(ns.P, "StatusCode")
		sc.CreateAttr("Value", v)
		cur.AddChild(sc)
		cur = sc
	}
}

// Prettify inserts newline+indent whitespace between element children of
// element-only content. It must be applied BEFORE signing (it changes the
// canonical form); text-bearing elements are left alone.
func Prettify(el *etree.Element, depth int) {
	kids := el.ChildElements()
	if len(kids) == 0 {
		return
	}
	for _, c := range el.Child {
		if cd, ok := c.(*etree.CharData); ok && cd.Data != "" {
			return // mixed content: do not touch
		}
	}
	indent := "\n"
	for i := 0; i <= depth; i++ {
		indent += "  "
	}
	var out []etree.Token
	for _, k := range kids {
		out = append(out, etree.NewText(indent), k)
	}
	out = append(out, etree.NewText(indent[:len(indent)-2]))
	// rebuild children through the API so parent/index bookkeeping is right
	for _, k := range kids {
		el.RemoveChild(k)
	}
	for _, tok := range out {
		el.AddChild(tok)
	}
	for _, k := range kids {
		Prettify(k, depth+1)
	}
}

// ---- time rendering ------------------------------------------------------

// RenderTime renders an instant as RFC 3339 with the given zone offset in
// minutes (0 renders as "Z" when useZ) and the given number of fractional
// digits (0..9; digits beyond the precision of t are zeros).
func RenderTime(t time.Time, offsetMin int, useZ bool, frac int) string {
	loc := time.UTC
	if offsetMin != 0 || !useZ {
		loc = time.FixedZone("", offsetMin*60)
	}
	tt := t.In(loc)
	layout := "2006-01-02T15:04:05"
	if frac > 0 {
		layout += "." + "000000000"[:frac]
	}
	s := tt.Format(layout)
	if offsetMin == 0 && useZ {
		return s + "Z"
	}
	return s + tt.Format("-07:00")
}
