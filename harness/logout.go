package harness

import (
	"time"

	"github.com/beevik/etree"
	"pgregory.net/rapid"
)

// LogoutIssue is one logout message issued by the IdP simulator.
type LogoutIssue struct {
	Model  LogoutModel  `json:"model"`
	NS     NSStyle      `json:"ns"`
	Sig    *SignSpec    `json:"sig,omitempty"` // nil = unsigned
	Layout Layout       `json:"layout"`
	Pres   Presentation `json:"pres"`
}

func (l *LogoutIssue) Tree() (*etree.Element, error) {
	root := BuildLogout(&l.Model, l.NS)
	if l.NS.Pretty > 0 {
		Prettify(root, 0)
	}
	if l.Sig != nil {
		if err := SignInPlace(root, l.Sig); err != nil {
			return nil, err
		}
	}
	return root, nil
}

func (l *LogoutIssue) Render() ([]byte, string, error) {
	root, err := l.Tree()
	if err != nil {
		return nil, "", err
	}
	lay := l.Layout
	lay.AllowComments = lay.AllowComments && (l.Sig == nil || !C14NKeepsComments(l.Sig.C14N))
	xml := Serialize(root, lay)
	return xml, Encode(xml, l.Pres), nil
}

// PlainLogout is a fixed well-formed logout message for the SP.
func PlainLogout(sp SPConfig, kind string) LogoutModel {
	now := sp.Now()
	m := LogoutModel{Kind: kind, ID: S("_lo1"), Version: S("2.0"), IssueInstant: S(now.Add(-time.Minute).UTC().Format(time.RFC3339)),
		Destination: S(sp.SLO), Issuer: S(sp.IdPIssuer)}
	if sp.IdPIssuer == "" {
		m.Issuer = S("https://any-idp.example.org")
	}
	if kind == "LogoutRequest" {
		m.NameID, m.SessionIndex = S("user@example.com"), S("_sess1")
	} else {
		m.InResponseTo = S("_req9")
		m.HasStatus, m.HasCode, m.StatusCode = true, true, S(StatusSuccess)
	}
	return m
}

// GenLogoutModel draws a logout message a conforming IdP would send to sp.
func GenLogoutModel(sp SPConfig, kind string, txt, attrTxt TextOpts) *rapid.Generator[LogoutModel] {
	return rapid.Custom(func(t *rapid.T) LogoutModel {
		m := PlainLogout(sp, kind)
		m.ID = S(GenID().Draw(t, "id"))
		m.IssueInstant = S(GenTimeString(sp.Now().Add(-time.Minute)).Draw(t, "issueInstant"))
		switch rapid.IntRange(0, 2).Draw(t, "destKind") {
		case 0:
			m.Destination = None
		case 1:
			m.Destination = S("")
		}
		if sp.IdPIssuer == "" {
			m.Issuer = S(GenText(txt).Draw(t, "issuerFree"))
		}
		m.IssuerFormat = genIssuerFormat(t, "issuerFormat")
		if kind == "LogoutRequest" {
			m.NameID = optOf(t, "nameID", GenText(txt).Draw(t, "nameIDV"))
			m.SessionIndex = optOf(t, "sessionIndex", GenText(txt).Draw(t, "sessionIndexV"))
		} else {
			m.InResponseTo = optOf(t, "irt", GenText(attrTxt).Draw(t, "irtV"))
		}
		return m
	})
}
