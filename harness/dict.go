package harness

import (
	"go/scanner"
	"go/token"
	"os"
	"path/filepath"
	"sort"
	"strconv"
	"strings"
	"sync"
	"unicode/utf8"
)

// A fuzzing dictionary taken from the code under test: every string literal of the library's non-test sources
// (the tree the checks are built against: $VERIF_REPO, else /repo). Values that coincide with a constant of the
// implementation — a template placeholder, an attribute name, a separator — are where string splicing goes wrong.
// The list is a pure function of the tree: sorted, de-duplicated, XML-legal literals of 2..60 bytes.

var (
	dictOnce sync.Once
	dict     []string
)

// CodeLiterals returns the dictionary (possibly empty when the sources cannot be read).
func CodeLiterals() []string {
	dictOnce.Do(func() {
		dir := os.Getenv("VERIF_REPO")
		if dir == "" {
			dir = "/repo"
		}
		seen := map[string]bool{}
		for _, sub := range []string{"", "types", "uuid"} {
			files, _ := filepath.Glob(filepath.Join(dir, sub, "*.go"))
			for _, f := range files {
				if strings.HasSuffix(f, "_test.go") {
					continue
				}
				src, err := os.ReadFile(f)
				if err != nil {
					continue
				}
				var s scanner.Scanner
				fset := token.NewFileSet()
				s.Init(fset.AddFile(f, fset.Base(), len(src)), src, nil, 0)
				for {
					_, tok, lit := s.Scan()
					if tok == token.EOF {
						break
					}
					if tok != token.STRING {
						continue
					}
					v, err := strconv.Unquote(lit)
					if err != nil || len(v) < 2 || len(v) > 60 || !xmlLegal(v) || strings.TrimSpace(v) == "" {
						continue
					}
					seen[v] = true
				}
			}
		}
		for v := range seen {
			dict = append(dict, v)
		}
		sort.Strings(dict)
	})
	return dict
}

func xmlLegal(s string) bool {
	if !utf8.ValidString(s) {
		return false
	}
	for _, r := range s {
		switch {
		case r == '\t' || r == '\n' || r == '\r':
		case r < 0x20 || r == 0xfffe || r == 0xffff || (r >= 0xd800 && r <= 0xdfff):
			return false
		}
	}
	return true
}
