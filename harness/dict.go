package harness

import (
	"go/scanner"
	"go/token"
	"os"
	"path/filepath"
	"sort"
	"strconv"
	"strings"
	"sync"
	"unicode/utf8"
)

// A fuzzing dictionary taken from the code under test: every string literal of the library's non-test sources
// (the tree the checks are built against: $VERIF_REPO, else /repo). Values that coincide with a constant of the
// implementation — a template placeholder, an attribute name, a separator — are where string splicing goes wrong.
// The list is a pure function of the tree: sorted, de-duplicated, XML-legal literals of 2..60 bytes.

var (
	dictOnce sync.Once
	dict     []string
	dictInts []uint64
)

// CodeInts returns the large integer constants (>= 2^31) of the library's sources: multipliers, masks, seeds.
func CodeInts() []uint64 {
	CodeLiterals()
	return dictInts
}

// CodeLiterals returns the dictionary (possibly empty when the sources cannot be read).
func CodeLiterals() []string {
	dictOnce.Do(func() {
		dir := os.Getenv("VERIF_REPO")
		if dir == "" {
			dir = "/repo"
		}
		seen := map[string]bool{}
		seenInt := map[uint64]bool{}
		for _, sub := range []string{"", "types", "uuid"} {
			files, _ := filepath.Glob(filepath.Join(dir, sub, "*.go"))
			for _, f := range files {
				if strings.HasSuffix(f, "_test.go") {
					continue
				}
				src, err := os.ReadFile(f)
				if err != nil {
					continue
				}
				var s scanner.Scanner
				fset := token.NewFileSet()
				s.Init(fset.AddFile(f, fset.Base(), len(src)), src, nil, 0)
				for {
					_, tok, lit := s.Scan()
					if tok == token.EOF {
						break
					}
					if tok == token.INT {
						if v, err := strconv.ParseUint(strings.ReplaceAll(lit, "_", ""), 0, 64); err == nil && v >= 1<<31 {
							seenInt[v] = true
						}
						continue
					}
					if tok != token.STRING {
						continue
					}
					v, err := strconv.Unquote(lit)
					if err != nil || len(v) < 2 || len(v) > 60 || !xmlLegal(v) || strings.TrimSpace(v) == "" {
						continue
					}
					seen[v] = true
				}
			}
		}
		for v := range seen {
			dict = append(dict, v)
		}
		sort.Strings(dict)
		for v := range seenInt {
			dictInts = append(dictInts, v)
		}
		sort.Slice(dictInts, func(i, j int) bool { return dictInts[i] < dictInts[j] })
	})
	return dict
}

func xmlLegal(s string) bool {
	if !utf8.ValidString(s) {
		return false
	}
	for _, r := range s {
		switch {
		case r == '\t' || r == '\n' || r == '\r':
		case r < 0x20 || r == 0xfffe || r == 0xffff || (r >= 0xd800 && r <= 0xdfff):
			return false
		}
	}
	return true
}
