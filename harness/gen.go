package harness

import (
	"strings"
	"time"
	"unicode/utf8"

	"pgregory.net/rapid"
)

// ---- strings over the XML Char repertoire -----------------------------------

var hostilePieces = []string{
	"<", ">", "&", "\"", "'", "]]>", "]]", "<!--", "-->", "&amp;", "&#x41;", "<![CDATA[", "</saml:NameID>",
	" ", "  ", "\t", "\n", "\r", "\r\n", "é", "ß", "日本語", "𝔘", "😀", " ", " ", "�", "",
	"admin", "user@example.com", "https://sp.example.com/", "urn:oasis:names:tc:SAML:2.0:", "a", "Z", "0", "=", "+", "/", "%20", "?", "#",
}

// edgeRunes: first / last code points of the ranges of the XML Char production, and characters that text handling
// tends to treat specially although XML does not: U+FFFD (what invalid UTF-8 decodes to), NEL, NBSP, other Unicode
// spaces, line / paragraph separator, zero-width and bidi controls, BOM inside text, non-characters' neighbours.
var edgeRunes = []rune{0x20, 0x7f, 0x80, 0x85, 0xa0, 0x1680, 0x2000, 0x2003, 0x200b, 0x200d, 0x200e, 0x2028, 0x2029, 0x202e, 0x202f, 0x205f, 0x2060, 0x3000, 0xd7ff, 0xe000, 0xfeff, 0xfffc, 0xfffd, 0x10000, 0x1f600, 0xe0001, 0x10ffff, 0x130, 0x131, 0x17f, 0x212a, 0xdf, 0x3c2, 0x1e9e}

// GenXMLChar draws one rune of the XML 1.0 Char production.
func GenXMLChar() *rapid.Generator[rune] {
	return rapid.OneOf(
		rapid.RuneFrom([]rune{'\t', '\n', '\r'}),
		rapid.Int32Range(0x20, 0x7e),
		rapid.Int32Range(0x20, 0x7e),
		rapid.Int32Range(0x7f, 0xd7ff),
		rapid.Int32Range(0xe000, 0xfffd),
		rapid.Int32Range(0x10000, 0x10ffff),
	)
}

// TextOpts narrows the value repertoire where a documented reason exists.
type TextOpts struct {
	NoCR    bool // exclude U+000D (used while a CR finding is open)
	NoCDEnd bool // exclude "]]>" (used for attribute-borne values while that finding is open)
	MaxLen  int
	NonEmpt bool
	// OnExclude, when set, is called each time a drawn string had to be changed because of NoCR / NoCDEnd.
	OnExclude func(what string)
}

// GenText draws a string of XML characters weighted towards markup, white space and non-ASCII.
func GenText(o TextOpts) *rapid.Generator[string] {
	max := o.MaxLen
	if max == 0 {
		max = 8
	}
	return rapid.Custom(func(t *rapid.T) string {
		n := rapid.IntRange(0, max).Draw(t, "pieces")
		if o.NonEmpt && n == 0 {
			n = 1
		}
		var sb strings.Builder
		for i := 0; i < n; i++ {
			switch k := rapid.IntRange(0, 14).Draw(t, "kind"); {
			case k < 5:
				sb.WriteRune(GenXMLChar().Draw(t, "ch"))
			case k == 5:
				sb.WriteRune(rapid.SampledFrom(edgeRunes).Draw(t, "edgeRune"))
			case k == 6 && len(CodeLiterals()) > 0:
				// a string constant of the implementation itself (placeholder, attribute name, separator ...)
				sb.WriteString(CodeLiterals()[rapid.IntRange(0, len(CodeLiterals())-1).Draw(t, "codeLiteral")])
			default:
				sb.WriteString(rapid.SampledFrom(hostilePieces).Draw(t, "piece"))
			}
		}
		s := sb.String()
		if o.NoCR && strings.Contains(s, "\r") {
			s = strings.ReplaceAll(s, "\r", "")
			if o.OnExclude != nil {
				o.OnExclude("cr")
			}
		}
		if o.NoCDEnd && strings.Contains(s, "]]>") {
			for strings.Contains(s, "]]>") {
				s = strings.ReplaceAll(s, "]]>", "]]")
			}
			if o.OnExclude != nil {
				o.OnExclude("cdend")
			}
		}
		if o.NonEmpt && s == "" {
			s = "x"
		}
		return s
	})
}

// LookAlike returns a value that is NOT lit but resembles it (variant k): another version segment, another
// letter case, one character more or less, a doubled separator. Values one step away from a constant of the
// implementation are where a "normalising" or "recognising" shortcut goes wrong; "" when the variant does not apply.
func LookAlike(lit string, k int) string {
	out := lit
	switch k % 9 {
	case 0:
		switch {
		case strings.Contains(lit, ":1.1:"):
			out = strings.Replace(lit, ":1.1:", ":2.0:", 1)
		case strings.Contains(lit, ":2.0:"):
			out = strings.Replace(lit, ":2.0:", ":1.1:", 1)
		case strings.Contains(lit, "2.0"):
			out = strings.Replace(lit, "2.0", "2.1", 1)
		}
	case 1:
		out = strings.ToUpper(lit)
	case 2:
		out = strings.ToLower(lit)
	case 3:
		out = lit + "x"
	case 4:
		out = lit[:len(lit)-1]
	case 5:
		out = strings.Replace(lit, ":", "::", 1)
	case 6:
		out = " " + lit
	case 7:
		if i := strings.LastIndexAny(lit, ":/#"); i >= 0 && i+1 < len(lit) {
			out = lit[:i+1] + strings.ToUpper(lit[i+1:i+2]) + lit[i+2:]
			if out == lit {
				out = lit[:i+1] + strings.ToLower(lit[i+1:i+2]) + lit[i+2:]
			}
		}
	case 8:
		out = lit + "/"
	}
	if out == lit || !utf8.ValidString(out) {
		return ""
	}
	return out
}

// GenLookAlike draws a look-alike of one of the implementation's string constants (of those containing sub, when
// sub is not empty); "" when there is none.
func GenLookAlike(sub string) *rapid.Generator[string] {
	return rapid.Custom(func(t *rapid.T) string {
		var pool []string
		for _, l := range CodeLiterals() {
			if (sub == "" || strings.Contains(l, sub)) && len(l) >= 4 {
				pool = append(pool, l)
			}
		}
		if len(pool) == 0 {
			return ""
		}
		lit := pool[rapid.IntRange(0, len(pool)-1).Draw(t, "lookAlikeOf")]
		return LookAlike(lit, rapid.IntRange(0, 8).Draw(t, "lookAlikeHow"))
	})
}

// TextClass classifies a value for the non-triviality rule.
func TextClass(s string) (markup, ws, nonASCII, cr bool) {
	for _, r := range s {
		switch {
		case r == '<' || r == '>' || r == '&' || r == '"' || r == '\'':
			markup = true
		case r == '\r':
			cr, ws = true, true
		case r == '\t' || r == '\n':
			ws = true
		case r >= utf8.RuneSelf:
			nonASCII = true
		}
	}
	if s != strings.TrimSpace(s) {
		ws = true
	}
	return
}

// Interesting reports whether a string exercises escaping / white space / non-ASCII handling.
func Interesting(s string) bool {
	m, w, n, _ := TextClass(s)
	return m || w || n
}

// GenID draws an xs:ID-like identifier (NCName, no colon).
func GenID() *rapid.Generator[string] {
	return rapid.StringMatching(`[_a-zA-Z][a-zA-Z0-9_.\-]{0,20}`)
}

// ---- styles ---------------------------------------------------------------------

func GenNSStyle() *rapid.Generator[NSStyle] {
	return rapid.Custom(func(t *rapid.T) NSStyle {
		pairs := [][2]string{{"samlp", "saml"}, {"saml2p", "saml2"}, {"", "saml"}, {"samlp", ""}, {"", ""}, {"p", "a"}}
		p := rapid.SampledFrom(pairs).Draw(t, "prefixes")
		return NSStyle{P: p[0], A: p[1], Redeclare: rapid.Bool().Draw(t, "redeclare"), Extra: rapid.IntRange(0, 3).Draw(t, "extraNS"), Pretty: rapid.IntRange(0, 1).Draw(t, "pretty")}
	})
}

func pctGen() *rapid.Generator[int] {
	return rapid.SampledFrom([]int{0, 0, 0, 10, 30, 60, 100})
}

func GenLayout(allowComments bool) *rapid.Generator[Layout] {
	return rapid.Custom(func(t *rapid.T) Layout {
		if rapid.IntRange(0, 5).Draw(t, "plainLayout") == 0 {
			return Layout{AllowComments: allowComments}
		}
		return Layout{
			Seed:          rapid.Uint64().Draw(t, "lseed"),
			AttrShuffle:   pctGen().Draw(t, "attrShuffle"),
			SingleQuote:   pctGen().Draw(t, "singleQuote"),
			TagSpace:      pctGen().Draw(t, "tagSpace"),
			SelfClose:     pctGen().Draw(t, "selfClose"),
			CharRef:       pctGen().Draw(t, "charRef"),
			GtEscape:      pctGen().Draw(t, "gtEscape"),
			CDATA:         pctGen().Draw(t, "cdata"),
			Comments:      pctGen().Draw(t, "comments"),
			Decl:          rapid.IntRange(0, 6).Draw(t, "decl"),
			BOM:           rapid.IntRange(0, 4).Draw(t, "bom") == 0,
			OuterWS:       rapid.Bool().Draw(t, "outerWS"),
			OuterComment:  rapid.IntRange(0, 3).Draw(t, "outerComment") == 0,
			AllowComments: allowComments,
		}
	})
}

func GenPresentation() *rapid.Generator[Presentation] {
	return rapid.Custom(func(t *rapid.T) Presentation {
		if rapid.Bool().Draw(t, "deflate") {
			p := Presentation{Deflate: true, Level: rapid.IntRange(-2, 9).Draw(t, "level")}
			if rapid.IntRange(0, 3).Draw(t, "oddDeflate") == 0 {
				// legal encodings no compressor emits: they begin like text (" <", "<", "$", "4", "D", "L", ",")
				p.Style = rapid.SampledFrom([]string{"stored-ws", "dyn-prefix", "dyn-prefix", "stored-tail", "ratio", "ratio"}).Draw(t, "deflateStyle")
			}
			return p
		}
		return Presentation{}
	})
}

// GenSignSpec draws a signature made by one of the given keys.
func GenSignSpec(keys []string) *rapid.Generator[*SignSpec] {
	return rapid.Custom(func(t *rapid.T) *SignSpec {
		key := rapid.SampledFrom(keys).Draw(t, "signer")
		c := CertRef{key, "wide"}
		sp := &SignSpec{Signer: c, Embed: &c}
		if K(key).Kind == "rsa" {
			sp.Method = rapid.SampledFrom(RSAMethods).Draw(t, "method")
		} else {
			sp.Method = rapid.SampledFrom(ECMethods).Draw(t, "method")
		}
		sp.C14N = rapid.SampledFrom(C14Ns).Draw(t, "c14n")
		sp.Prefix = rapid.SampledFrom([]string{"ds", "ds", "dsig", "", "sig"}).Draw(t, "sigPrefix")
		sp.AfterIssuer = rapid.IntRange(0, 3).Draw(t, "sigLast") != 0
		return sp
	})
}

// ---- times ------------------------------------------------------------------------

// GenRendering draws a zone offset (minutes), Z-usage and fraction digits for a given instant.
func GenTimeString(at time.Time) *rapid.Generator[string] {
	return rapid.Custom(func(t *rapid.T) string {
		off := rapid.SampledFrom([]int{0, 0, 60, -300, 330, 840, -720, 1, -1, 765}).Draw(t, "zoneMin")
		useZ := rapid.Bool().Draw(t, "useZ")
		min := MinFrac(at)
		frac := min
		if extra := rapid.IntRange(0, 3).Draw(t, "fracExtra"); extra > 0 {
			frac = min + extra*3
			if frac > 9 {
				frac = 9
			}
		}
		return RenderTime(at, off, useZ, frac)
	})
}

// MinFrac is the smallest number of fractional digits that renders t exactly.
func MinFrac(t time.Time) int {
	ns := t.Nanosecond()
	if ns == 0 {
		return 0
	}
	d := 9
	for ns%10 == 0 {
		ns /= 10
		d--
	}
	return d
}

// ---- models -----------------------------------------------------------------------

// ModelOpts tailors GenResponseModel.
type ModelOpts struct {
	SP          SPConfig
	Text        TextOpts
	AttrText    TextOpts // repertoire for values carried in XML attributes
	MaxAssert   int
	PlainValues bool // short ASCII values only (used where values are not the point)
	// Embedded: some assertions carry an embedded assertion in saml:Advice and some Responses one in
	// samlp:Extensions. GenGenuine keeps them only under a signed Response: the library refuses ANY nested
	// Assertion element on the unsigned-Response path (by design, C01).
	Embedded bool
}

func (o ModelOpts) text(t *rapid.T, label string) string {
	if o.PlainValues {
		return rapid.StringMatching(`[a-z]{1,6}`).Draw(t, label)
	}
	return GenText(o.Text).Draw(t, label)
}

func (o ModelOpts) attr(t *rapid.T, label string) string {
	if o.PlainValues {
		return rapid.StringMatching(`[a-z]{1,6}`).Draw(t, label)
	}
	return GenText(o.AttrText).Draw(t, label)
}

func optOf(t *rapid.T, label string, v string) Opt {
	if rapid.IntRange(0, 3).Draw(t, label+"Present") == 0 {
		return None
	}
	return S(v)
}

// genIssuerFormat: the optional Format attribute of an Issuer (absent three times out of four). Whatever it says,
// the Issuer VALUE is what is compared with the configured IdP issuer.
func genIssuerFormat(t *rapid.T, label string) Opt {
	if rapid.IntRange(0, 3).Draw(t, label+"Set") != 0 {
		return None
	}
	return S(rapid.SampledFrom([]string{"urn:oasis:names:tc:SAML:2.0:nameid-format:entity", "urn:oasis:names:tc:SAML:1.1:nameid-format:unspecified", "urn:oasis:names:tc:SAML:2.0:nameid-format:persistent", "", "urn:example:other"}).Draw(t, label))
}

// NameIDFormats the simulator stamps on NameIDs.
var NameIDFormats = []string{"urn:oasis:names:tc:SAML:1.1:nameid-format:emailAddress", "urn:oasis:names:tc:SAML:1.1:nameid-format:unspecified", "urn:oasis:names:tc:SAML:2.0:nameid-format:persistent", "urn:oasis:names:tc:SAML:2.0:nameid-format:transient", ""}

// genNameID: free text, or an e-mail shaped name whose parts mix case and use characters with surprising
// case mappings (Kelvin sign, dotted capital I, sharp s, final sigma) — a subject is what was signed, byte for byte.
func genNameID(t *rapid.T, o ModelOpts) string {
	if o.PlainValues || rapid.IntRange(0, 3).Draw(t, "nameIDEmail") != 0 {
		return o.text(t, "nameID")
	}
	local := rapid.SampledFrom([]string{"alice", "Alice", "ALICE", "mike", "a.b+c", "\u00e9lise", "stra\u00dfe"}).Draw(t, "nameIDLocal")
	dom := rapid.SampledFrom([]string{"example.com", "Example.COM", "EXAMPLE.com", "\u212Aorp.example", "\u0130.example", "\u03a3\u03a3.example", "xn--bcher-kva.example", "example.com.", "[10.0.0.1]"}).Draw(t, "nameIDDomain")
	return local + "@" + dom
}

// embeddedAssertion: a small unsigned assertion (evidence in Advice, or a copy in Extensions). It names another
// subject and grants more than the real one: whoever honours it, or lets it shift an index, shows.
func embeddedAssertion(o ModelOpts, id string) AssertionModel {
	now := o.SP.Now()
	ts := func(d time.Duration) Opt { return S(now.Add(d).UTC().Format(time.RFC3339)) }
	return AssertionModel{ID: S("_" + id), Version: S("2.0"), IssueInstant: ts(-time.Hour), Issuer: S("https://upstream-idp.example.net"),
		HasSubject: true, NameID: S("embedded-evidence@upstream.example.net"), HasSC: true, SCMethod: S(Bearer), HasSCD: true, Recipient: S(o.SP.ACS), SCNotOnOrAfter: ts(10 * time.Minute),
		HasConditions: true, NotBefore: ts(-time.Hour), NotOnOrAfter: ts(time.Hour),
		HasAttrStmt: true, Attrs: []AttrModel{{Name: "role", Values: []string{"embedded-admin"}}}}
}

// GenAssertionModel draws an assertion that is valid for the SP at its clock.
func GenAssertionModel(o ModelOpts) *rapid.Generator[AssertionModel] {
	return rapid.Custom(func(t *rapid.T) AssertionModel {
		now := o.SP.Now()
		a := AssertionModel{
			ID:           S(GenID().Draw(t, "aid")),
			Version:      S("2.0"),
			IssueInstant: S(GenTimeString(now.Add(-time.Minute)).Draw(t, "aIssueInstant")),
			Issuer:       S(o.SP.IdPIssuer),
			HasSubject:   true,
			NameID:       S(genNameID(t, o)),
			HasSC:        true, SCMethod: S(Bearer), HasSCD: true,
			Recipient:      S(o.SP.ACS),
			SCNotOnOrAfter: S(GenTimeString(now.Add(5*time.Minute)).Draw(t, "scNOOA")),
			SCInResponseTo: optOf(t, "scIRT", "_req1"),
			HasConditions:  true,
			NotBefore:      S(GenTimeString(now.Add(-5*time.Minute)).Draw(t, "notBefore")),
			NotOnOrAfter:   S(GenTimeString(now.Add(5*time.Minute)).Draw(t, "notOnOrAfter")),
		}
		if o.SP.IdPIssuer == "" {
			a.Issuer = S(o.text(t, "aIssuerFree"))
		}
		a.IssuerFormat = genIssuerFormat(t, "aIssuerFormat")
		if rapid.Bool().Draw(t, "nameIDFormatSet") {
			a.NameIDFormat = S(rapid.SampledFrom(NameIDFormats).Draw(t, "nameIDFormat"))
		}
		nr := rapid.IntRange(0, 2).Draw(t, "nRestrictions")
		for i := 0; i < nr; i++ {
			na := rapid.IntRange(1, 3).Draw(t, "nAud")
			var auds []string
			for j := 0; j < na; j++ {
				if rapid.Bool().Draw(t, "audMatch") {
					auds = append(auds, o.SP.Audience)
				} else {
					auds = append(auds, o.text(t, "aud"))
				}
			}
			a.Audiences = append(a.Audiences, auds)
		}
		a.OneTimeUse = rapid.IntRange(0, 3).Draw(t, "otu") == 0
		if rapid.IntRange(0, 3).Draw(t, "proxy") == 0 {
			a.HasProxy = true
			if rapid.Bool().Draw(t, "proxyCountSet") {
				a.ProxyCount = S(itoa(rapid.IntRange(0, 1<<31-1).Draw(t, "proxyCount")))
			}
			np := rapid.IntRange(0, 3).Draw(t, "nProxyAud")
			for j := 0; j < np; j++ {
				a.ProxyAudience = append(a.ProxyAudience, o.text(t, "proxyAud"))
			}
		}
		// an assertion without AttributeStatement is only acceptable to an SP that allows it
		a.HasAttrStmt = !(o.SP.AllowMissing && rapid.IntRange(0, 2).Draw(t, "noAttrStmt") == 0)
		a.AttrFirst = rapid.IntRange(0, 3).Draw(t, "attrStmtFirst") == 0
		nat := rapid.IntRange(0, 5).Draw(t, "nAttrs")
		if !a.HasAttrStmt {
			nat = 0
		}
		names := map[string]bool{}
		for i := 0; i < nat; i++ {
			name := o.attr(t, "attrName")
			if names[name] {
				name += "#" + itoa(i)
			}
			names[name] = true
			at := AttrModel{Name: name, XSIType: rapid.IntRange(0, 3).Draw(t, "xsi") == 0}
			at.FriendlyName = optOf(t, "friendly", o.attr(t, "friendlyV"))
			at.NameFormat = optOf(t, "nameFormat", "urn:oasis:names:tc:SAML:2.0:attrname-format:"+rapid.SampledFrom([]string{"basic", "uri", "unspecified"}).Draw(t, "nf"))
			nv := rapid.IntRange(0, 4).Draw(t, "nValues")
			for j := 0; j < nv; j++ {
				at.Values = append(at.Values, o.text(t, "attrValue"))
			}
			a.Attrs = append(a.Attrs, at)
		}
		if o.Embedded && rapid.IntRange(0, 5).Draw(t, "advice") == 0 {
			ev := embeddedAssertion(o, "advice-evidence-"+a.ID.V)
			a.Advice = &ev
		}
		a.HasAuthn = rapid.IntRange(0, 5).Draw(t, "authn") != 0
		if a.HasAuthn {
			a.SessionIndex = optOf(t, "sessionIndex", o.attr(t, "sessionIndexV"))
			a.AuthnInstant = optOf(t, "authnInstant", GenTimeString(now.Add(-2*time.Minute)).Draw(t, "authnInstantV"))
			a.SessionNotOnOrAfter = optOf(t, "sessionNOOA", GenTimeString(now.Add(8*time.Hour)).Draw(t, "sessionNOOAV"))
			a.ClassRef = optOf(t, "classRef", "urn:oasis:names:tc:SAML:2.0:ac:classes:PasswordProtectedTransport")
		}
		return a
	})
}

func itoa(i int) string {
	const digits = "0123456789"
	if i == 0 {
		return "0"
	}
	neg := i < 0
	if neg {
		i = -i
	}
	var b []byte
	for i > 0 {
		b = append([]byte{digits[i%10]}, b...)
		i /= 10
	}
	if neg {
		b = append([]byte{'-'}, b...)
	}
	return string(b)
}

// GenResponseModel draws a Response that a conforming IdP would issue for o.SP.
func GenResponseModel(o ModelOpts) *rapid.Generator[ResponseModel] {
	return rapid.Custom(func(t *rapid.T) ResponseModel {
		now := o.SP.Now()
		m := ResponseModel{
			ID:           S(GenID().Draw(t, "rid")),
			InResponseTo: optOf(t, "irt", GenID().Draw(t, "irtV")),
			Version:      S("2.0"),
			IssueInstant: S(GenTimeString(now.Add(-time.Minute)).Draw(t, "rIssueInstant")),
			Issuer:       S(o.SP.IdPIssuer),
			HasStatus:    true, HasCode: true, StatusCode: S(StatusSuccess),
		}
		if o.SP.IdPIssuer == "" {
			m.Issuer = S(o.text(t, "rIssuerFree"))
		}
		m.IssuerFormat = genIssuerFormat(t, "rIssuerFormat")
		if o.Embedded && rapid.IntRange(0, 7).Draw(t, "extAssertion") == 0 {
			ev := embeddedAssertion(o, "ext-copy")
			m.ExtAssertion = &ev
		}
		if rapid.IntRange(0, 7).Draw(t, "subStatus") == 0 {
			// a subordinate code and a message under a top-level Success: unusual, legal, irrelevant to acceptance
			m.SubCodes = []string{rapid.SampledFrom([]string{"urn:oasis:names:tc:SAML:2.0:status:PartialLogout", "urn:example:idp:status:step-up-skipped", "urn:oasis:names:tc:SAML:2.0:status:AuthnFailed"}).Draw(t, "subCode")}
			m.StatusMsg = optOf(t, "statusMsg", "ok")
		}
		if rapid.Bool().Draw(t, "destSet") {
			m.Destination = S(o.SP.ACS)
		} else if rapid.Bool().Draw(t, "destEmpty") {
			m.Destination = S("")
		}
		max := o.MaxAssert
		if max == 0 {
			max = 3
		}
		n := rapid.IntRange(1, max).Draw(t, "nAssertions")
		ids := map[string]bool{m.ID.V: true}
		for i := 0; i < n; i++ {
			a := GenAssertionModel(o).Draw(t, "assertion")
			for ids[a.ID.V] {
				a.ID.V += "x"
			}
			ids[a.ID.V] = true
			m.Assertions = append(m.Assertions, a)
		}
		return m
	})
}

// GenSPStrings draws the configured URLs / issuers of an SP (non-empty, distinct enough).
func GenSPConfig(txt, attrTxt TextOpts) *rapid.Generator[SPConfig] {
	return rapid.Custom(func(t *rapid.T) SPConfig {
		c := BaseSP()
		if rapid.Bool().Draw(t, "hostileConfig") {
			o := txt
			o.NonEmpt = true
			ao := attrTxt
			ao.NonEmpt = true
			c.ACS = GenText(ao).Draw(t, "acs")
			c.IdPIssuer = GenText(o).Draw(t, "idpIssuer")
			c.Audience = GenText(txt).Draw(t, "audience")
		}
		if rapid.IntRange(0, 3).Draw(t, "noIssuer") == 0 {
			c.IdPIssuer = ""
		}
		c.AllowMissing = rapid.Bool().Draw(t, "allowMissingAttributes")
		if rapid.IntRange(0, 7).Draw(t, "patternConfig") == 0 {
			// configured strings with characters special to glob / regexp / LIKE matching
			c.ACS = rapid.SampledFrom([]string{"https://sp.example.com/acs?tenant=42", "https://[::1]:8443/acs", "https://sp.example.com/acs."}).Draw(t, "acsPattern")
			if c.IdPIssuer != "" {
				c.IdPIssuer = rapid.SampledFrom([]string{"https://idp.example.com/*", "urn:idp:[a-z]", "https://idp.example.com/metadata?x=1"}).Draw(t, "issuerPattern")
			}
		}
		// clock: any instant inside the wide window, any zone
		base := time.Date(2021, 1, 1, 0, 0, 0, 0, time.UTC).UnixNano()
		span := int64(18 * 365 * 24 * time.Hour)
		c.NowUnixNano = base + rapid.Int64Range(0, span).Draw(t, "now")
		c.NowOffset = rapid.SampledFrom([]int{0, 0, 120, -480, 345}).Draw(t, "clockZone")
		return c
	})
}

// DSTTransitions returns the instants (to the second) in the given year at which the UTC offset of the
// IANA zone changes; found by scanning, so it depends only on the embedded tzdata.
func DSTTransitions(zone string, year int) []time.Time {
	loc, err := time.LoadLocation(zone)
	if err != nil {
		return nil
	}
	var out []time.Time
	t := time.Date(year, 1, 1, 0, 0, 0, 0, time.UTC)
	_, prev := t.In(loc).Zone()
	for t.Year() == year {
		n := t.Add(time.Hour)
		if _, off := n.In(loc).Zone(); off != prev {
			// bisect to the second
			lo, hi := t, n
			for hi.Sub(lo) > time.Second {
				mid := lo.Add(hi.Sub(lo) / 2).Truncate(time.Second)
				if _, o := mid.In(loc).Zone(); o != prev {
					hi = mid
				} else {
					lo = mid
				}
			}
			out = append(out, hi)
			prev = off
		}
		t = n
	}
	return out
}

// GenClockNearDST draws a zone and an instant within a few hours of one of its offset changes
// (the repeated hour of a fall-back lies within that range).
func GenClockNearDST() *rapid.Generator[[2]string] {
	return rapid.Custom(func(t *rapid.T) [2]string {
		zone := rapid.SampledFrom([]string{"America/New_York", "Europe/Berlin", "Australia/Lord_Howe", "America/Sao_Paulo", "Pacific/Chatham", "Europe/London"}).Draw(t, "dstZone")
		year := rapid.IntRange(2015, 2037).Draw(t, "dstYear")
		tr := DSTTransitions(zone, year)
		if len(tr) == 0 {
			tr = []time.Time{time.Date(year, 6, 1, 0, 0, 0, 0, time.UTC)}
		}
		at := tr[rapid.IntRange(0, len(tr)-1).Draw(t, "dstWhich")].Add(time.Duration(rapid.Int64Range(-3*3600, 3*3600).Draw(t, "dstOffsetSec"))*time.Second + time.Duration(rapid.Int64Range(0, 999999999).Draw(t, "dstNs")))
		return [2]string{zone, at.UTC().Format(time.RFC3339Nano)}
	})
}
