package harness

import (
	"crypto/aes"
	"crypto/cipher"
	"crypto/rand"
	"crypto/rsa"
	"crypto/sha1"
	"crypto/sha256"
	"crypto/sha512"
	"encoding/base64"
	"fmt"
	"hash"
	"strings"

	"github.com/beevik/etree"
	"github.com/russellhaering/gosaml2/types"
)

var (
	DataAlgs   = []string{types.MethodAES128GCM, types.MethodAES192GCM, types.MethodAES256GCM, types.MethodAES128CBC, types.MethodAES256CBC}
	Transports = []string{types.MethodRSAOAEP, types.MethodRSAOAEP2, types.MethodRSAv1_5}
	// DigestChoices: "-" = element absent, otherwise the Algorithm attribute value.
	DigestChoices = []string{"-", "", types.MethodSHA1, types.MethodSHA256, types.MethodSHA512}
)

// KeyLen is the content-encryption key length the algorithm identifier implies.
func KeyLen(alg string) int {
	switch alg {
	case types.MethodAES128GCM, types.MethodAES128CBC:
		return 16
	case types.MethodAES192GCM:
		return 24
	case types.MethodAES256GCM, types.MethodAES256CBC:
		return 32
	case types.MethodTripleDESCBC:
		return 24
	}
	return 16
}

func IsGCM(alg string) bool {
	return alg == types.MethodAES128GCM || alg == types.MethodAES192GCM || alg == types.MethodAES256GCM
}

// EncSpec describes one XML-Encryption of an element to an SP certificate by a
// party that knows only the certificate.
type EncSpec struct {
	DataAlg   string   `json:"dataAlg"`
	Transport string   `json:"transport"`
	Digest    string   `json:"digest"` // "-" absent
	Detached  bool     `json:"detached"`
	To        CertRef  `json:"to"`
	Recipient *CertRef `json:"recipient,omitempty"` // certificate named in EncryptedKey/KeyInfo
	RecipRaw  string   `json:"recipRaw,omitempty"`  // raw override of that text
	// RecipWrap: the recipient certificate's base64 is broken into lines of this many characters (64 PEM, 76 MIME;
	// negative: CRLF line ends), as most XML security libraries write it. 0 = one line.
	RecipWrap int `json:"recipWrap,omitempty"`
	// Decoy: with an INLINE key, a second xenc:EncryptedKey as a sibling of EncryptedData (where a detached key
	// goes) that is meant for somebody else — "other": wrapped for E2 and naming E2's certificate; "garbage": an
	// undecryptable CipherValue. SAML allows one EncryptedKey per recipient; the inline one is this SP's.
	Decoy string `json:"decoy,omitempty"`
	// KeySize: the data EncryptionMethod carries the optional xenc:KeySize child (the true size in bits):
	// schema-legal decoration of the method
	KeySize bool   `json:"keySize,omitempty"`
	Key     []byte `json:"key"`     // content-encryption key
	IV      []byte `json:"iv"`      // 12 bytes (GCM) or 16 (CBC)
	PadFill byte   `json:"padFill"` // filler for CBC padding bytes other than the last
	// overrides for the ciphertext explorer
	RawCipher    []byte `json:"rawCipher,omitempty"` // if UseRawCipher, the data CipherValue bytes verbatim
	UseRawCipher bool   `json:"useRawCipher,omitempty"`
	NoMethod     bool   `json:"noMethod,omitempty"`     // omit EncryptedData/EncryptionMethod
	NoCipherData bool   `json:"noCipherData,omitempty"` // omit EncryptedData/CipherData
	NoKey        bool   `json:"noKey,omitempty"`        // no EncryptedKey at all
	KeyCipherRaw string `json:"keyCipherRaw,omitempty"` // raw override of the key CipherValue text
	UseKeyRaw    bool   `json:"useKeyCipherRaw,omitempty"`
}

func oaepHash(d string) hash.Hash {
	switch d {
	case types.MethodSHA256:
		return sha256.New()
	case types.MethodSHA512:
		return sha512.New()
	}
	return sha1.New()
}

// EncryptData performs the symmetric step: returns IV||ciphertext.
func (e *EncSpec) EncryptData(plain []byte) ([]byte, error) {
	blk, err := aes.NewCipher(e.Key)
	if err != nil {
		return nil, err
	}
	if IsGCM(e.DataAlg) {
		g, err := cipher.NewGCM(blk)
		if err != nil {
			return nil, err
		}
		if len(e.IV) != g.NonceSize() {
			return nil, fmt.Errorf("bad nonce length %d", len(e.IV))
		}
		out := append([]byte(nil), e.IV...)
		return g.Seal(out, e.IV, plain, nil), nil
	}
	if len(e.IV) != 16 {
		return nil, fmt.Errorf("bad iv length %d", len(e.IV))
	}
	// XML-Enc padding: N-1 arbitrary bytes then the byte N, 1 <= N <= 16
	n := 16 - len(plain)%16
	padded := append([]byte(nil), plain...)
	for i := 0; i < n-1; i++ {
		padded = append(padded, e.PadFill)
	}
	padded = append(padded, byte(n))
	out := make([]byte, 16+len(padded))
	copy(out, e.IV)
	cipher.NewCBCEncrypter(blk, e.IV).CryptBlocks(out[16:], padded)
	return out, nil
}

// WrapKey performs the key-transport step with the recipient's public key.
func (e *EncSpec) WrapKey() ([]byte, error) {
	pub, ok := e.To.X509().PublicKey.(*rsa.PublicKey)
	if !ok {
		return nil, fmt.Errorf("recipient key is not RSA")
	}
	switch e.Transport {
	case types.MethodRSAv1_5:
		return rsa.EncryptPKCS1v15(rand.Reader, pub, e.Key)
	default:
		return rsa.EncryptOAEP(oaepHash(e.Digest), rand.Reader, pub, e.Key, nil)
	}
}

// EncryptElement returns an EncryptedAssertion element (prefix style from ns)
// containing plain encrypted per the spec.
func (e *EncSpec) EncryptElement(plain []byte, ns NSStyle) (*etree.Element, error) {
	ea := ns.aEl("EncryptedAssertion", false)
	ed := mk("xenc", "EncryptedData")
	declNS(ed, "xenc", NSXenc)
	ed.CreateAttr("Type", "http://www.w3.org/2001/04/xmlenc#Element")
	ea.AddChild(ed)
	if !e.NoMethod {
		dm := ed.CreateElement("xenc:EncryptionMethod")
		dm.CreateAttr("Algorithm", e.DataAlg)
		if e.KeySize {
			dm.CreateElement("xenc:KeySize").SetText(fmt.Sprint(8 * len(e.Key)))
		}
	}
	var ek *etree.Element
	if !e.NoKey {
		ek = mk("xenc", "EncryptedKey")
		em := ek.CreateElement("xenc:EncryptionMethod")
		em.CreateAttr("Algorithm", e.Transport)
		if e.Digest != "-" {
			dm := em.CreateElement("ds:DigestMethod")
			declNS(dm, "ds", NSDsig)
			dm.CreateAttr("Algorithm", e.Digest)
		}
		if e.Recipient != nil || e.RecipRaw != "" {
			ki := ek.CreateElement("ds:KeyInfo")
			declNS(ki, "ds", NSDsig)
			txt := e.RecipRaw
			if txt == "" {
				txt = base64.StdEncoding.EncodeToString(e.Recipient.DER())
				if w := e.RecipWrap; w != 0 {
					nl := "\n"
					if w < 0 {
						w, nl = -w, "\r\n"
					}
					var sb strings.Builder
					for i := 0; i < len(txt); i += w {
						end := i + w
						if end > len(txt) {
							end = len(txt)
						}
						sb.WriteString(txt[i:end] + nl)
					}
					txt = sb.String()
				}
			}
			ki.CreateElement("ds:X509Data").CreateElement("ds:X509Certificate").SetText(txt)
		}
		kc := e.KeyCipherRaw
		if !e.UseKeyRaw {
			w, err := e.WrapKey()
			if err != nil {
				return nil, err
			}
			kc = base64.StdEncoding.EncodeToString(w)
		}
		ek.CreateElement("xenc:CipherData").CreateElement("xenc:CipherValue").SetText(kc)
		if e.Detached {
			declNS(ek, "xenc", NSXenc)
			ki := ed.CreateElement("ds:KeyInfo")
			declNS(ki, "ds", NSDsig)
			rm := ki.CreateElement("ds:RetrievalMethod")
			rm.CreateAttr("URI", "#_detached_key")
			rm.CreateAttr("Type", "http://www.w3.org/2001/04/xmlenc#EncryptedKey")
			ek.CreateAttr("Id", "_detached_key")
			ea.AddChild(ek)
		} else {
			ki := ed.CreateElement("ds:KeyInfo")
			declNS(ki, "ds", NSDsig)
			ki.AddChild(ek)
			if e.Decoy != "" {
				other := CertRef{Key: "E2", Window: "wide"}
				dk := mk("xenc", "EncryptedKey")
				declNS(dk, "xenc", NSXenc)
				dk.CreateElement("xenc:EncryptionMethod").CreateAttr("Algorithm", e.Transport)
				dki := dk.CreateElement("ds:KeyInfo")
				declNS(dki, "ds", NSDsig)
				dki.CreateElement("ds:X509Data").CreateElement("ds:X509Certificate").SetText(base64.StdEncoding.EncodeToString(other.DER()))
				cv := "AAAA"
				if e.Decoy == "other" {
					o := *e
					o.To = other
					if w, err := o.WrapKey(); err == nil {
						cv = base64.StdEncoding.EncodeToString(w)
					}
				}
				dk.CreateElement("xenc:CipherData").CreateElement("xenc:CipherValue").SetText(cv)
				ea.AddChild(dk)
			}
		}
	}
	if !e.NoCipherData {
		var data []byte
		if e.UseRawCipher {
			data = e.RawCipher
		} else {
			var err error
			data, err = e.EncryptData(plain)
			if err != nil {
				return nil, err
			}
		}
		ed.CreateElement("xenc:CipherData").CreateElement("xenc:CipherValue").SetText(base64.StdEncoding.EncodeToString(data))
	}
	return ea, nil
}
