package harness

import (
	"crypto"
	"errors"
	"io"
	"time"
	_ "time/tzdata" // named zones must not depend on the host

	saml2 "github.com/russellhaering/gosaml2"
	dsig "github.com/russellhaering/goxmldsig"
)

// KeyCfg says how one SP key (encryption or signing) is configured.
// Mode: "" / "none", "tls" (deprecated field, TLSCertKeyStore), "custom"
// (deprecated field, plain X509KeyStore), "setter" (SetSP*KeyStore), "both"
// (field = Field, setter = Setter; the setter must win).
type KeyCfg struct {
	Mode   string  `json:"mode"`
	Field  CertRef `json:"field"`
	Setter CertRef `json:"setter"`
	// Chain: the TLS store given through the deprecated field carries a certificate chain — the leaf followed
	// by an issuer certificate (ChainIssuer), as a store built from "leaf + CA bundle" PEM does.
	Chain bool `json:"chain,omitempty"`
	// LeafLast (with Chain): the bundle is NOT ordered leaf first — issuer certificate, then the leaf (a PEM file
	// concatenated the other way round). Certificate[0] is what the library takes for "the" certificate; whatever
	// that means for such a store, nobody re-orders the caller's slice.
	LeafLast bool `json:"leafLast,omitempty"`
	// Bare: the custom store's RSA key is assembled from bare components, without precomputed CRT values.
	Bare bool `json:"bare,omitempty"`
	// FailSign: the key cannot sign (an HSM / KMS that is unavailable): crypto.Signer.Sign returns an error for
	// setter and TLS-field keys, GetKeyPair returns an error for the custom store.
	FailSign bool `json:"failSign,omitempty"`
	// FieldPtr: the deprecated-field store of modes "tls" / "both" is the pointer-typed custom store instead of the
	// value-typed TLS one (so that one store OBJECT can be shared between the two fields, see ShareFieldStore).
	FieldPtr bool `json:"fieldPtr,omitempty"`
}

// FailingSigner has the public key of a real key and refuses to sign.
type FailingSigner struct{ crypto.Signer }

func (f FailingSigner) Sign(io.Reader, []byte, crypto.SignerOpts) ([]byte, error) {
	return nil, errors.New("signing key unavailable")
}

// ChainIssuer is the second certificate of chain stores (any other certificate will do: nothing verifies the chain).
var ChainIssuer = CertRef{Key: "U1", Window: "wide"}

// SignerChain tells whether the key the SP signs with comes from a field TLS store that carries a chain.
func (c SPConfig) SignerChain() bool {
	pick := c.Sig
	if c.Sig.None() {
		pick = c.Enc
	}
	return pick.Mode == "tls" && pick.Chain
}

func (k KeyCfg) None() bool { return k.Mode == "" || k.Mode == "none" }

// Effective returns the certificate reference that must be in force.
func (k KeyCfg) Effective() (CertRef, bool) {
	switch k.Mode {
	case "tls", "custom":
		return k.Field, true
	case "setter", "both":
		return k.Setter, true
	}
	return CertRef{}, false
}

// SPConfig is the JSON-serialisable configuration a check builds its service
// provider from. A fresh SAMLServiceProvider is built for every evaluation.
type SPConfig struct {
	ACS       string `json:"acs"`
	SLO       string `json:"slo"`
	IdPIssuer string `json:"idpIssuer"`
	SPIssuer  string `json:"spIssuer"`
	Audience  string `json:"audience"`
	IdPSSO    string `json:"idpSSO"`
	IdPSLO    string `json:"idpSLO"`
	// IdPSSOBinding / IdPSLOBinding: the (informational) binding identifiers of the IdP endpoints, as copied from
	// IdP metadata; the library's builders are named after the binding they produce and do not depend on them
	IdPSSOBinding string    `json:"idpSSOBinding,omitempty"`
	IdPSLOBinding string    `json:"idpSLOBinding,omitempty"`
	Store         []CertRef `json:"store"`
	NoStore       bool      `json:"noStore,omitempty"`
	// DynStore: the IdP certificate store is a custom (non-memory) implementation, see DynStore.
	DynStore bool   `json:"dynStore,omitempty"`
	Skip     bool   `json:"skip"`
	Enc      KeyCfg `json:"enc"`
	Sig      KeyCfg `json:"sig"`

	NowUnixNano int64  `json:"now"`
	NowOffset   int    `json:"nowOffsetMin"`      // zone the fake clock reports in
	NowZone     string `json:"nowZone,omitempty"` // IANA zone name (DST-observing zones); overrides NowOffset
	NilClock    bool   `json:"nilClock,omitempty"`

	MaxSize         int64 `json:"maxSize"`
	ValidateEncCert bool  `json:"validateEncCert"`
	AllowMissing    bool  `json:"allowMissingAttributes"`

	// ShareFieldStore: SPSigningKeyStore is assigned the very same store object as SPKeyStore (one key for both
	// purposes, configured through both deprecated fields); Sig must then describe that key (mode custom, Enc.Field).
	ShareFieldStore bool `json:"shareFieldStore,omitempty"`

	// LateSignOptions: the signature algorithm and canonicaliser are assigned AFTER the key setters ran (and before
	// the first use) instead of in the struct literal: both orders configure the same service provider
	LateSignOptions bool `json:"lateSignOptions,omitempty"`

	SignRequests bool   `json:"signRequests"`
	SignAlg      string `json:"signAlg"`
	SignC14N     string `json:"signC14N"` // "" = nil canonicaliser
	NameIDFormat string `json:"nameIDFormat"`
	ForceAuthn   bool   `json:"forceAuthn"`
	IsPassive    bool   `json:"isPassive"`
	RAC          *RAC   `json:"rac,omitempty"`
}

type RAC struct {
	Comparison string   `json:"comparison"`
	Contexts   []string `json:"contexts"`
}

func (c SPConfig) Now() time.Time {
	t := time.Unix(0, c.NowUnixNano).UTC()
	if c.NowZone != "" {
		if loc, err := time.LoadLocation(c.NowZone); err == nil {
			return t.In(loc)
		}
	}
	if c.NowOffset != 0 {
		t = t.In(time.FixedZone("", c.NowOffset*60))
	}
	return t
}

func keyStoreField(k KeyCfg) dsig.X509KeyStore {
	switch k.Mode {
	case "tls", "both":
		if k.FieldPtr {
			return NewCustomStore(k.Field)
		}
		st := TLSStore(k.Field)
		if k.Chain {
			st.Certificate = append(st.Certificate, ChainIssuer.DER())
			if k.LeafLast {
				st.Certificate[0], st.Certificate[1] = st.Certificate[1], st.Certificate[0]
			}
		}
		if k.FailSign {
			st.PrivateKey = FailingSigner{K(k.Field.Key).Signer}
		}
		return st
	case "custom":
		if k.Bare {
			return NewBareCustomStore(k.Field)
		}
		cs := NewCustomStore(k.Field)
		if k.FailSign {
			cs.Err = errors.New("key store unavailable")
		}
		return cs
	}
	return nil
}

// Build creates a fresh service provider.
func (c SPConfig) Build() *saml2.SAMLServiceProvider {
	sp := &saml2.SAMLServiceProvider{
		IdentityProviderSSOURL:      c.IdPSSO,
		IdentityProviderSLOURL:      c.IdPSLO,
		IdentityProviderSSOBinding:  c.IdPSSOBinding,
		IdentityProviderSLOBinding:  c.IdPSLOBinding,
		IdentityProviderIssuer:      c.IdPIssuer,
		AssertionConsumerServiceURL: c.ACS,
		ServiceProviderSLOURL:       c.SLO,
		ServiceProviderIssuer:       c.SPIssuer,
		AudienceURI:                 c.Audience,
		SkipSignatureValidation:     c.Skip,
		ValidateEncryptionCert:      c.ValidateEncCert,
		AllowMissingAttributes:      c.AllowMissing,
		MaximumDecompressedBodySize: c.MaxSize,
		SignAuthnRequests:           c.SignRequests,
		SignAuthnRequestsAlgorithm:  map[bool]string{false: c.SignAlg, true: ""}[c.LateSignOptions],
		NameIdFormat:                c.NameIDFormat,
		ForceAuthn:                  c.ForceAuthn,
		IsPassive:                   c.IsPassive,
	}
	if c.DynStore {
		sp.IDPCertificateStore = NewDynStore(c.Store)
	} else if !c.NoStore {
		sp.IDPCertificateStore = Store(c.Store)
	}
	if !c.NilClock {
		sp.Clock = dsig.NewFakeClockAt(c.Now())
	}
	if c.SignC14N != "" && !c.LateSignOptions {
		sp.SignAuthnRequestsCanonicalizer = CanonicalizerFor(c.SignC14N)
	}
	if c.RAC != nil {
		sp.RequestedAuthnContext = &saml2.RequestedAuthnContext{Comparison: c.RAC.Comparison, Contexts: append([]string(nil), c.RAC.Contexts...)}
	}
	if f := keyStoreField(c.Enc); f != nil {
		sp.SPKeyStore = f
	}
	if c.Enc.Mode == "setter" || c.Enc.Mode == "both" {
		k := K(c.Enc.Setter.Key)
		var signer crypto.Signer = k.Signer
		if c.Enc.FailSign {
			signer = FailingSigner{k.Signer}
		}
		if err := sp.SetSPKeyStore(&saml2.KeyStore{Signer: signer, Cert: c.Enc.Setter.DER()}); err != nil {
			panic(err)
		}
	}
	if f := keyStoreField(c.Sig); f != nil {
		sp.SPSigningKeyStore = f
	}
	if c.ShareFieldStore && sp.SPKeyStore != nil {
		sp.SPSigningKeyStore = sp.SPKeyStore
	}
	if c.Sig.Mode == "setter" || c.Sig.Mode == "both" {
		k := K(c.Sig.Setter.Key)
		var signer crypto.Signer = k.Signer
		if c.Sig.FailSign {
			signer = FailingSigner{k.Signer}
		}
		if err := sp.SetSPSigningKeyStore(&saml2.KeyStore{Signer: signer, Cert: c.Sig.Setter.DER()}); err != nil {
			panic(err)
		}
	}
	if c.LateSignOptions {
		sp.SignAuthnRequestsAlgorithm = c.SignAlg
		if c.SignC14N != "" {
			sp.SignAuthnRequestsCanonicalizer = CanonicalizerFor(c.SignC14N)
		}
	}
	return sp
}

// BaseSP is a conventional configuration at a fixed instant inside the wide window.
func BaseSP() SPConfig {
	return SPConfig{
		ACS:         "https://sp.example.com/saml/acs",
		SLO:         "https://sp.example.com/saml/slo",
		IdPIssuer:   "https://idp.example.com/metadata",
		SPIssuer:    "https://sp.example.com/metadata",
		Audience:    "https://sp.example.com/metadata",
		IdPSSO:      "https://idp.example.com/sso",
		IdPSLO:      "https://idp.example.com/slo",
		Store:       []CertRef{{"T1", "wide"}},
		NowUnixNano: time.Date(2030, 3, 1, 12, 0, 0, 0, time.UTC).UnixNano(),
	}
}
